// @append-to src/rolling/directory.rs
// Kani harnesses for C17 (filename_to_position).  Appended as a child module so that the private
// function is reachable without any visibility edit.
#[cfg(kani)]
pub(crate) mod verif_kani {
    use super::*;

    pub(crate) fn f2p(s: &str) -> Option<u64> {
        filename_to_position(s)
    }

    fn expected(b: &[u8; 24]) -> Option<u64> {
        if !(b[0] == b'w' && b[1] == b'a' && b[2] == b'l' && b[3] == b'-') {
            return None;
        }
        let mut v: u128 = 0;
        let mut i = 4;
        while i < 24 {
            if !(b'0' <= b[i] && b[i] <= b'9') {
                return None;
            }
            v = v * 10 + (b[i] - b'0') as u128;
            i += 1;
        }
        if v > u64::MAX as u128 { None } else { Some(v as u64) }
    }

    /// K-fname: for ALL 24-byte names, Some(n) iff "wal-" + 20 ASCII digits fitting u64, and n is that value.
    #[kani::proof]
    #[kani::unwind(26)]
    fn k_fname() {
        let b: [u8; 24] = kani::any();
        // the argument is a `&str`: valid UTF-8.  The only consequence the function relies on is that byte
        // 4 is a char boundary when the name starts with the 4 ASCII bytes "wal-" (it slices at 4).
        kani::assume((b[4] as i8) >= -0x40);
        let s = unsafe { std::str::from_utf8_unchecked(&b) };
        let got = filename_to_position(s);
        assert_eq!(got, expected(&b));
    }

    /// exact UTF-8 validity of a 24-byte name (what the type `&str` guarantees), written so that CBMC handles it cheaply
    fn valid_utf8(b: &[u8; 24]) -> bool {
        // one pass, as a state machine: `need` continuation bytes are still owed, the next one must lie in lo..=hi
        let (mut need, mut lo, mut hi) = (0u8, 0x80u8, 0xBFu8);
        let mut i = 0;
        while i < 24 {
            let c = b[i];
            if need == 0 {
                if c < 0x80 {
                } else if c >= 0xC2 && c <= 0xDF { need = 1; lo = 0x80; hi = 0xBF;
                } else if c == 0xE0 { need = 2; lo = 0xA0; hi = 0xBF;
                } else if c == 0xED { need = 2; lo = 0x80; hi = 0x9F;
                } else if c >= 0xE1 && c <= 0xEF { need = 2; lo = 0x80; hi = 0xBF;
                } else if c == 0xF0 { need = 3; lo = 0x90; hi = 0xBF;
                } else if c == 0xF4 { need = 3; lo = 0x80; hi = 0x8F;
                } else if c >= 0xF1 && c <= 0xF3 { need = 3; lo = 0x80; hi = 0xBF;
                } else { return false; }
            } else {
                if c < lo || c > hi { return false; }
                need -= 1; lo = 0x80; hi = 0xBF;
            }
            i += 1;
        }
        need == 0
    }

    /// K-fname-nb: the remaining 24-byte names, those whose byte 4 is NOT a char boundary: all VALID UTF-8 strings of 24 bytes with a
    /// multi-byte character straddling offset 4.  The function must return None -- and must not panic (C10: a stray file with such a
    /// name must not make `open` panic).
    #[kani::proof]
    #[kani::unwind(26)]
    fn k_fname_nb() {
        let b: [u8; 24] = kani::any();
        kani::assume((b[4] as i8) < -0x40);
        kani::assume(valid_utf8(&b));
        let s = unsafe { std::str::from_utf8_unchecked(&b) };
        assert_eq!(filename_to_position(s), None);
    }

    /// K-fname-len: any name whose length is not 24 (0..=32) is rejected.
    #[kani::proof]
    #[kani::unwind(34)]
    fn k_fname_len() {
        let b: [u8; 32] = kani::any();
        let len: usize = kani::any();
        kani::assume(len <= 32 && len != 24);
        let s = unsafe { std::str::from_utf8_unchecked(&b[..len]) };
        assert_eq!(filename_to_position(s), None);
    }
}
