// @append-to src/rolling/directory.rs
// Kani harnesses for C17 (filename_to_position).  Appended as a child module so that the private
// function is reachable without any visibility edit.
#[cfg(kani)]
pub(crate) mod verif_kani {
    use super::*;

    pub(crate) fn f2p(s: &str) -> Option<u64> {
        filename_to_position(s)
    }

    fn expected(b: &[u8; 24]) -> Option<u64> {
        if !(b[0] == b'w' && b[1] == b'a' && b[2] == b'l' && b[3] == b'-') {
            return None;
        }
        let mut v: u128 = 0;
        let mut i = 4;
        while i < 24 {
            if !(b'0' <= b[i] && b[i] <= b'9') {
                return None;
            }
            v = v * 10 + (b[i] - b'0') as u128;
            i += 1;
        }
        if v > u64::MAX as u128 { None } else { Some(v as u64) }
    }

    /// K-fname: for ALL 24-byte names, Some(n) iff "wal-" + 20 ASCII digits fitting u64, and n is that value.
    #[kani::proof]
    #[kani::unwind(26)]
    fn k_fname() {
        let b: [u8; 24] = kani::any();
        // the argument is a `&str`: valid UTF-8.  The only consequence the function relies on is that byte
        // 4 is a char boundary when the name starts with the 4 ASCII bytes "wal-" (it slices at 4).
        kani::assume((b[4] as i8) >= -0x40);
        let s = unsafe { std::str::from_utf8_unchecked(&b) };
        let got = filename_to_position(s);
        assert_eq!(got, expected(&b));
    }

    /// K-fname-len: any name whose length is not 24 (0..=32) is rejected.
    #[kani::proof]
    #[kani::unwind(34)]
    fn k_fname_len() {
        let b: [u8; 32] = kani::any();
        let len: usize = kani::any();
        kani::assume(len <= 32 && len != 24);
        let s = unsafe { std::str::from_utf8_unchecked(&b[..len]) };
        assert_eq!(filename_to_position(s), None);
    }
}
