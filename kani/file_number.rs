// @append-to src/rolling/file_number.rs
#[cfg(kani)]
mod verif_kani {
    use super::*;

    /// K-handles (bounded): a file handle can be deleted iff no retained record was appended with it.
    /// Shape: 3 appends (two with file A, one with file B), then truncate(..=p) for symbolic p in 0..=3.
    #[kani::proof]
    #[kani::unwind(6)]
    fn k_handles() {
        use crate::mem::MemQueue;
        let fa = FileNumber::new(0);
        let fb = FileNumber::new(1);
        let mut q = MemQueue::with_next_position(0);
        q.append_record(&fa, 0, b"a").unwrap();
        q.append_record(&fa, 1, b"b").unwrap();
        q.append_record(&fb, 2, b"c").unwrap();
        assert!(!fa.can_be_deleted());
        assert!(!fb.can_be_deleted());
        let p: u64 = kani::any();
        kani::assume(p <= 3);
        q.truncate_head(..=p);
        // records 0,1 live in A; record 2 lives in B
        assert_eq!(fa.can_be_deleted(), p >= 1);
        assert_eq!(fb.can_be_deleted(), p >= 2);
    }
}
