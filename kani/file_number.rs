// @append-to src/rolling/file_number.rs
#[cfg(kani)]
mod verif_kani {
    use super::*;

    /// K-fname-rt (bounded): filename() of a file number parses back to that number.
    /// Bound: numbers d * 10^k with d in 0..=9, k in 0..=19 (one symbolic decimal digit at any place value).
    #[kani::proof]
    #[kani::unwind(26)]
    fn k_fname_rt() {
        let d: u64 = kani::any();
        let k: u32 = kani::any();
        kani::assume(d <= 9 && k <= 19);
        let mut n: u64 = d;
        let mut i = 0;
        while i < k {
            // d * 10^19 overflows only for d >= 2
            match n.checked_mul(10) { Some(m) => n = m, None => return }
            i += 1;
        }
        let name = FileNumber::new(n).filename();
        assert_eq!(super::super::directory::verif_kani::f2p(&name), Some(n));
    }

    /// K-handles (bounded): a file handle can be deleted iff no retained record was appended with it.
    /// Shape: 3 appends (two with file A, one with file B), then truncate(..=p) for symbolic p in 0..=3.
    #[kani::proof]
    #[kani::unwind(6)]
    fn k_handles() {
        use crate::mem::MemQueue;
        let fa = FileNumber::new(0);
        let fb = FileNumber::new(1);
        let mut q = MemQueue::with_next_position(0);
        q.append_record(&fa, 0, b"a").unwrap();
        q.append_record(&fa, 1, b"b").unwrap();
        q.append_record(&fb, 2, b"c").unwrap();
        assert!(!fa.can_be_deleted());
        assert!(!fb.can_be_deleted());
        let p: u64 = kani::any();
        kani::assume(p <= 3);
        q.truncate_head(..=p);
        // records 0,1 live in A; record 2 lives in B
        assert_eq!(fa.can_be_deleted(), p >= 1);
        assert_eq!(fb.can_be_deleted(), p >= 2);
    }
}
