// @append-to src/mem/queue.rs
#[cfg(kani)]
mod verif_kani {
    use super::*;

    fn metas(n: usize, p: [u64; 4]) -> Vec<RecordMeta> {
        let mut v = Vec::new();
        let mut i = 0;
        while i < n {
            v.push(RecordMeta { start_offset: i, file_number: None, position: p[i] });
            i += 1;
        }
        v
    }

    /// K-p2i (bounded stand-in for the assumed contract O-mq-p2i): <= 4 metas, strictly increasing symbolic positions
    #[kani::proof]
    #[kani::unwind(6)]
    fn k_p2i() {
        let n: usize = kani::any();
        kani::assume(n <= 4);
        let p: [u64; 4] = kani::any();
        kani::assume(p[0] < p[1] && p[1] < p[2] && p[2] < p[3]);
        let q = MemQueue { concatenated_records: RollingBuffer::new(), start_position: 0, record_metas: metas(n, p) };
        let x: u64 = kani::any();
        match q.position_to_idx(x) {
            Ok(i) => { assert!(i < n); assert_eq!(p[i], x); }
            Err(i) => {
                assert!(i <= n);
                let mut j = 0;
                while j < n { if j < i { assert!(p[j] < x); } else { assert!(p[j] > x); } j += 1; }
            }
        }
    }

    /// K-range-* (bounded stand-in for MemQueue::range): 2 records x 1-byte payloads at symbolic positions,
    /// symbolic bound values, one harness per pair of bound kinds (Included / Excluded / Unbounded); the iterator
    /// yields exactly the retained records inside the range, in order.
    fn range_case(lb: Bound<u64>, hb: Bound<u64>) {
        let p0: u64 = kani::any();
        let p1: u64 = kani::any();
        kani::assume(p0 < p1 && p1 < u64::MAX);
        let b0: u8 = kani::any();
        let b1: u8 = kani::any();
        // the queue after `append(p0,[b0]); append(p1,[b1])`, built directly (the append path is verified by Verus)
        let mut concatenated_records = RollingBuffer::new();
        concatenated_records.extend(&[b0, b1]);
        let q = MemQueue {
            concatenated_records,
            start_position: p0,
            record_metas: vec![
                RecordMeta { start_offset: 0, file_number: None, position: p0 },
                RecordMeta { start_offset: 1, file_number: None, position: p1 },
            ],
        };
        let inside = |p: u64| -> bool {
            (match lb { Bound::Included(l) => p >= l, Bound::Excluded(l) => p > l, Bound::Unbounded => true })
                && (match hb { Bound::Included(h) => p <= h, Bound::Excluded(h) => p < h, Bound::Unbounded => true })
        };
        let mut it = q.range((lb, hb));
        if inside(p0) {
            let r = it.next().unwrap();
            assert_eq!(r.position, p0);
            assert_eq!(r.payload.len(), 1);
            assert_eq!(r.payload[0], b0);
        }
        if inside(p1) {
            let r = it.next().unwrap();
            assert_eq!(r.position, p1);
            assert_eq!(r.payload.len(), 1);
            assert_eq!(r.payload[0], b1);
        }
        assert!(it.next().is_none());
    }
    #[kani::proof] #[kani::unwind(5)] fn k_range_ii() { range_case(Bound::Included(kani::any()), Bound::Included(kani::any())); }
    #[kani::proof] #[kani::unwind(5)] fn k_range_ie() { range_case(Bound::Included(kani::any()), Bound::Excluded(kani::any())); }
    #[kani::proof] #[kani::unwind(5)] fn k_range_iu() { range_case(Bound::Included(kani::any()), Bound::Unbounded); }
    #[kani::proof] #[kani::unwind(5)] fn k_range_ei() { range_case(Bound::Excluded(kani::any()), Bound::Included(kani::any())); }
    #[kani::proof] #[kani::unwind(5)] fn k_range_ee() { range_case(Bound::Excluded(kani::any()), Bound::Excluded(kani::any())); }
    #[kani::proof] #[kani::unwind(5)] fn k_range_eu() { range_case(Bound::Excluded(kani::any()), Bound::Unbounded); }
    #[kani::proof] #[kani::unwind(5)] fn k_range_ui() { range_case(Bound::Unbounded, Bound::Included(kani::any())); }
    #[kani::proof] #[kani::unwind(5)] fn k_range_ue() { range_case(Bound::Unbounded, Bound::Excluded(kani::any())); }
    #[kani::proof] #[kani::unwind(5)] fn k_range_uu() { range_case(Bound::Unbounded, Bound::Unbounded); }
}
