// @append-to src/frame/header.rs
#[cfg(kani)]
mod verif_kani {
    use super::*;

    /// K-hdr: for ALL 7-byte headers: deserialize is None iff the type byte is not 1..=4, and
    /// serialize(deserialize(b)) == b.  Loop-free: complete.
    #[kani::proof]
    fn k_hdr_roundtrip() {
        let b: [u8; HEADER_LEN] = kani::any();
        match Header::deserialize(&b) {
            None => assert!(!(1..=4).contains(&b[6])),
            Some(h) => {
                assert!((1..=4).contains(&b[6]));
                let mut out = [0u8; HEADER_LEN];
                h.serialize(&mut out);
                assert_eq!(out, b);
            }
        }
    }

    /// K-le: the little-endian shims' contracts (vstd::bytes specs): byte i of to_le_bytes(x) is (x >> 8i) & 0xff
    /// and from_le_bytes is the inverse.  Full domain of u16 / u32 / u64.
    #[kani::proof]
    #[kani::unwind(10)]
    fn k_le() {
        let x: u64 = kani::any();
        let b = x.to_le_bytes();
        let mut i = 0;
        while i < 8 { assert_eq!(b[i], ((x >> (8 * i)) & 0xff) as u8); i += 1; }
        assert_eq!(u64::from_le_bytes(b), x);
        let y: u32 = kani::any();
        let c = y.to_le_bytes();
        let mut i = 0;
        while i < 4 { assert_eq!(c[i], ((y >> (8 * i)) & 0xff) as u8); i += 1; }
        assert_eq!(u32::from_le_bytes(c), y);
        let z: u16 = kani::any();
        let d = z.to_le_bytes();
        assert_eq!(d[0], (z & 0xff) as u8);
        assert_eq!(d[1], (z >> 8) as u8);
        assert_eq!(u16::from_le_bytes(d), z);
    }
}
