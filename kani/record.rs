// @append-to src/record.rs
#[cfg(kani)]
mod verif_kani {
    use super::*;

    /// K-mrs-* (bounded stand-in for the assumed contract O-mrs-layout of MultiRecord::serialize):
    /// n payloads (n fixed per harness) of <= 2 bytes, symbolic first position: output == (pos+i (le64) | len (le32) | bytes)*
    fn check(out: &[u8], n: usize, pos: u64, data: &[[u8; 2]; 2], lens: &[usize; 2]) {
        let mut off = 0usize;
        let mut i = 0;
        while i < n {
            assert!(out.len() >= off + 12 + lens[i]);
            assert_eq!(u64::from_le_bytes(out[off..off + 8].try_into().unwrap()), pos + i as u64);
            assert_eq!(u32::from_le_bytes(out[off + 8..off + 12].try_into().unwrap()) as usize, lens[i]);
            let mut j = 0;
            while j < lens[i] { assert_eq!(out[off + 12 + j], data[i][j]); j += 1; }
            off += 12 + lens[i];
            i += 1;
        }
        assert_eq!(out.len(), off);
    }

    #[kani::proof]
    #[kani::unwind(4)]
    fn k_mrs_0() {
        let pos: u64 = kani::any();
        kani::assume(pos < u64::MAX - 3); // `(position..)` steps past `position` even for an empty batch
        let mut out = Vec::with_capacity(64);
        out.push(7u8); // serialize must clear the buffer
        let empty: [&[u8]; 0] = [];
        MultiRecord::serialize(empty.iter().copied(), pos, &mut out);
        assert_eq!(out.len(), 0);
    }

    #[kani::proof]
    #[kani::unwind(4)]
    fn k_mrs_1() {
        let data: [[u8; 2]; 2] = kani::any();
        let lens: [usize; 2] = kani::any();
        kani::assume(lens[0] <= 2);
        let pos: u64 = kani::any();
        kani::assume(pos < u64::MAX - 3);
        let mut out = Vec::with_capacity(64);
        MultiRecord::serialize([&data[0][..lens[0]]].iter().copied(), pos, &mut out);
        check(&out, 1, pos, &data, &lens);
    }

}
