// @append-to src/record.rs
#[cfg(kani)]
mod verif_kani {
    use super::*;

    /// K-mrs (bounded stand-in for the assumed contract O-mrs-layout of MultiRecord::serialize):
    /// <= 2 payloads of <= 1 byte, symbolic first position: output == (pos+i (le64) | len (le32) | bytes)*
    #[kani::proof]
    #[kani::unwind(5)]
    fn k_mrs() {
        let n: usize = kani::any();
        kani::assume(n <= 2);
        let data: [[u8; 2]; 3] = kani::any();
        let lens: [usize; 3] = kani::any();
        kani::assume(lens[0] <= 1 && lens[1] <= 1 && lens[2] <= 1);
        let pos: u64 = kani::any();
        kani::assume(pos < u64::MAX - 3);
        let payloads: [&[u8]; 3] = [&data[0][..lens[0]], &data[1][..lens[1]], &data[2][..lens[2]]];
        let mut out = Vec::with_capacity(64);
        MultiRecord::serialize(payloads[..n].iter().copied(), pos, &mut out);
        let mut off = 0usize;
        let mut i = 0;
        while i < n {
            assert!(out.len() >= off + 12 + lens[i]);
            assert_eq!(u64::from_le_bytes(out[off..off + 8].try_into().unwrap()), pos + i as u64);
            assert_eq!(u32::from_le_bytes(out[off + 8..off + 12].try_into().unwrap()) as usize, lens[i]);
            let mut j = 0;
            while j < lens[i] { assert_eq!(out[off + 12 + j], data[i][j]); j += 1; }
            off += 12 + lens[i];
            i += 1;
        }
        assert_eq!(out.len(), off);
    }
}
