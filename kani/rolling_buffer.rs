// @append-to src/mem/rolling_buffer.rs
#[cfg(kani)]
mod verif_kani {
    use super::*;

    /// K-getrange (bounded stand-in for the assumed contract O-C05-getrange):
    /// ring buffers of <= 3 bytes (capacity 4) at every rotation; any pair of bounds; result == model[start..end].
    #[kani::proof]
    #[kani::unwind(5)]
    fn k_getrange() {
        // build a ring with a symbolic rotation: push `pre` bytes, drop them, push the content
        let mut rb = RollingBuffer::new();
        rb.buffer.reserve_exact(4);
        let pre: usize = kani::any();
        kani::assume(pre <= 3);
        let mut i = 0;
        while i < pre { rb.buffer.push_back(0xEE); i += 1; }
        let mut i = 0;
        while i < pre { rb.buffer.pop_front(); i += 1; }
        let n: usize = kani::any();
        kani::assume(n <= 3);
        let content: [u8; 4] = kani::any();
        let mut i = 0;
        while i < n { rb.buffer.push_back(content[i]); i += 1; }
        assert_eq!(rb.len(), n);
        let s: usize = kani::any();
        let e: usize = kani::any();
        kani::assume(s <= e && e <= n);
        let sk: u8 = kani::any();
        let ek: u8 = kani::any();
        // express [s, e) with every bound kind
        let sb = match sk % 3 { 0 => Bound::Included(s), 1 => { kani::assume(s >= 1); Bound::Excluded(s - 1) } _ => { kani::assume(s == 0); Bound::Unbounded } };
        let eb = match ek % 3 { 0 => { kani::assume(e >= 1); Bound::Included(e - 1) } 1 => Bound::Excluded(e), _ => { kani::assume(e == n); Bound::Unbounded } };
        let got = rb.get_range((sb, eb));
        assert_eq!(got.len(), e - s);
        let mut i = 0;
        while i < e - s { assert_eq!(got[i], content[s + i]); i += 1; }
    }
}
