// @append-to src/mem/rolling_buffer.rs
#[cfg(kani)]
mod verif_kani {
    use super::*;

    /// K-getrange-r* (bounded stand-in for the assumed contract O-C05-getrange): ring buffers of <= 3 bytes
    /// (capacity 4) at rotation `pre` (one harness per rotation 0..=3); any pair of bounds; result == model[start..end].
    fn getrange_case(pre: usize) {
        let mut rb = RollingBuffer::new();
        rb.buffer.reserve_exact(4);
        let mut i = 0;
        while i < pre { rb.buffer.push_back(0xEE); i += 1; }
        let mut i = 0;
        while i < pre { rb.buffer.pop_front(); i += 1; }
        let n: usize = kani::any();
        kani::assume(n <= 3);
        let content: [u8; 3] = kani::any();
        let mut i = 0;
        while i < n { rb.buffer.push_back(content[i]); i += 1; }
        let s: usize = kani::any();
        let e: usize = kani::any();
        kani::assume(s <= e && e <= n);
        let sk: u8 = kani::any();
        let ek: u8 = kani::any();
        let sb = match sk % 3 { 0 => Bound::Included(s), 1 => { kani::assume(s >= 1); Bound::Excluded(s - 1) } _ => { kani::assume(s == 0); Bound::Unbounded } };
        let eb = match ek % 3 { 0 => { kani::assume(e >= 1); Bound::Included(e - 1) } 1 => Bound::Excluded(e), _ => { kani::assume(e == n); Bound::Unbounded } };
        let got = rb.get_range((sb, eb));
        assert_eq!(got.len(), e - s);
        let mut i = 0;
        while i < e - s { assert_eq!(got[i], content[s + i]); i += 1; }
    }
    #[kani::proof] #[kani::unwind(5)] fn k_getrange_r0() { getrange_case(0); }
    #[kani::proof] #[kani::unwind(5)] fn k_getrange_r1() { getrange_case(1); }
    #[kani::proof] #[kani::unwind(5)] fn k_getrange_r2() { getrange_case(2); }
    #[kani::proof] #[kani::unwind(5)] fn k_getrange_r3() { getrange_case(3); }
}
