// @append-to src/multi_record_log.rs
// Bounded stand-in for the END-TO-END statement of C06 by EXHAUSTIVE ENUMERATION OF SHORT HISTORIES, executed natively (cargo test) against the
// real MultiRecordLog on real files (4-block WAL files under cfg(test)) -- not a proof and not symbolic: the statement is about
// Arc::strong_count (live clones across the heap), which no contract can state (DESIGN.md, C06).
// Bound: two queues; every history of at most DEPTH operations out of
//   append(q, 100 B) | append(q, 70 000 B: spills over blocks, every second one rolls to a new file) | truncate(q, ..=last) | truncate(q, ..=middle)
//   | delete + recreate(q) | drop + reopen
// After EVERY truncate / delete / open: the directory holds exactly the contiguous run of WAL files the log tracks, ending at the file being
// written; no file is older than both the file in which the oldest retained record of any queue was appended and the file that was being
// written when the call began; disk_used_bytes is the total size of those files.
#[cfg(test)]
mod verif_enum_c06 {
    use super::*;
    use std::collections::BTreeMap;

    const DEPTH: usize = 4;
    const QUEUES: [&str; 2] = ["a", "b"];

    #[derive(Clone, Copy, Debug)]
    enum Op { Small(usize), Big(usize), TruncAll(usize), TruncMid(usize), Recreate(usize), Reopen }

    fn all_ops() -> Vec<Op> {
        let mut v = vec![Op::Reopen];
        for q in 0..2 { v.extend([Op::Small(q), Op::Big(q), Op::TruncAll(q), Op::TruncMid(q), Op::Recreate(q)]); }
        v
    }

    fn wal_files(dir: &std::path::Path) -> Vec<u64> {
        let mut v: Vec<u64> = std::fs::read_dir(dir).unwrap().filter_map(|e| {
            let n = e.unwrap().file_name().to_str().unwrap().to_string();
            n.strip_prefix("wal-").and_then(|d| d.parse::<u64>().ok())
        }).collect();
        v.sort();
        v
    }

    /// the C06 statement, checked against the directory listing and a model that knows in which file each retained record was appended
    fn check(log: &MultiRecordLog, dir: &std::path::Path, model: &BTreeMap<usize, Vec<(u64, u64)>>, file_at_call: u64, hist: &[Op], ever: &mut std::collections::BTreeSet<u64>) {
        let on_disk = wal_files(dir);
        ever.extend(on_disk.iter().copied());
        let tracked = log.list_file_numbers();
        assert_eq!(on_disk, tracked, "directory listing != tracked files after {hist:?}");
        // contiguous: no WAL file ever seen in this directory is missing between the oldest and the newest one (numbering gaps are allowed, C17)
        let run: Vec<u64> = ever.range(on_disk[0]..=*on_disk.last().unwrap()).copied().collect();
        assert!(on_disk == run, "not a contiguous run {on_disk:?} (files seen so far {ever:?}) after {hist:?}");
        let oldest_needed = model.values().filter_map(|recs| recs.first().map(|r| r.1)).min();
        let bound = match oldest_needed { Some(f) => f.min(file_at_call), None => file_at_call };
        assert!(on_disk[0] >= bound, "file {} kept although nothing retained lives before file {bound} (files {on_disk:?}) after {hist:?}", on_disk[0]);
        assert_eq!(log.resource_usage().disk_used_bytes, on_disk.len() * 4 * crate::BLOCK_NUM_BYTES, "disk_used_bytes after {hist:?}");
    }

    fn run(hist: &[Op]) {
        let tmp = tempfile::tempdir().unwrap();
        let mut log = MultiRecordLog::open(tmp.path()).unwrap();
        // model: queue -> retained (position, file in which the append STARTED)
        let mut model: BTreeMap<usize, Vec<(u64, u64)>> = BTreeMap::new();
        let mut next: [u64; 2] = [0, 0];
        let mut ever: std::collections::BTreeSet<u64> = std::collections::BTreeSet::new();
        for q in 0..2 { log.create_queue(QUEUES[q]).unwrap(); model.insert(q, Vec::new()); }
        let small = vec![1u8; 100];
        let big = vec![2u8; 70_000];
        for (i, op) in hist.iter().enumerate() {
            let cur = *log.list_file_numbers().last().unwrap();
            ever.extend(wal_files(tmp.path()));
            let h = &hist[..=i];
            match *op {
                Op::Small(q) | Op::Big(q) => {
                    let payload: &[u8] = if matches!(op, Op::Small(_)) { &small } else { &big };
                    log.append_record(QUEUES[q], None, payload).unwrap();
                    model.get_mut(&q).unwrap().push((next[q], cur));
                    next[q] += 1;
                }
                Op::TruncAll(q) | Op::TruncMid(q) => {
                    let recs = model.get_mut(&q).unwrap();
                    if recs.is_empty() { continue; }
                    let upto = if matches!(op, Op::TruncAll(_)) { recs.last().unwrap().0 } else { recs[recs.len() / 2].0 };
                    log.truncate(QUEUES[q], ..=upto).unwrap();
                    recs.retain(|r| r.0 > upto);
                    check(&log, tmp.path(), &model, cur, h, &mut ever);
                }
                Op::Recreate(q) => {
                    log.delete_queue(QUEUES[q]).unwrap();
                    model.get_mut(&q).unwrap().clear();
                    check(&log, tmp.path(), &model, cur, h, &mut ever);
                    log.create_queue(QUEUES[q]).unwrap();
                    next[q] = 0;
                }
                Op::Reopen => {
                    drop(log);
                    log = MultiRecordLog::open(tmp.path()).unwrap();
                    // after a reopen the file of a record is the one replay attributes to it: the bound can only get weaker, keep the model's
                    check(&log, tmp.path(), &model, cur, h, &mut ever);
                }
            }
        }
    }

    fn rec(prefix: &mut Vec<Op>, ops: &[Op], count: &mut u64) {
        if !prefix.is_empty() { run(prefix); *count += 1; }
        if prefix.len() == DEPTH { return; }
        for op in ops { prefix.push(*op); rec(prefix, ops, count); prefix.pop(); }
    }

    /// E-c06: every history of at most DEPTH operations
    #[test]
    fn e_c06_histories() {
        let ops = all_ops();
        let mut count = 0u64;
        rec(&mut Vec::new(), &ops, &mut count);
        eprintln!("E-c06: {count} histories of depth <= {DEPTH}");
    }
}
