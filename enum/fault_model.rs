// @append-to src/multi_record_log.rs
// E-fault: BOUNDED stand-in for C11 by injecting a REAL I/O error into recovery, executed natively (cargo test) against the real
// MultiRecordLog::open -- not a proof and not symbolic.  Used like E-hist / E-dmg (DESIGN.md 13.13): thorough tier of C11, and quick-tier
// fall-back when the deductive verdict is "undecided".  Public API + the file system only.
// The fault: one WAL file is replaced by a regular file that cannot be opened for writing -- a copy of a program that is being executed
// (open(2) with write access fails with ETXTBSY, also for root; the library opens WAL files read+write).  No hook in the crate is needed.
// Bound: one layout (one queue, 30 000-byte records until the log spans 4 WAL files), the fault placed on each file in turn.
// Oracle (tag C11): open returns Err(IoError) within 20 s -- it neither hangs, nor returns Ok with a log built from part of the WAL, nor
// reports the I/O failure as Corruption.
// If the environment cannot produce the fault (no /bin/sleep, a noexec scratch directory), the harness says so and FAILS WITHOUT a tagged
// line: that is a tool condition (undecided), never a verdict.
#[cfg(test)]
mod verif_enum_fault {
    use super::*;
    use std::path::{Path, PathBuf};

    fn wal_files(dir: &Path) -> Vec<PathBuf> {
        let mut v: Vec<PathBuf> = std::fs::read_dir(dir).unwrap().map(|e| e.unwrap().path())
            .filter(|p| p.file_name().unwrap().to_str().unwrap().starts_with("wal-") && p.is_file()).collect();
        v.sort();
        v
    }
    fn scratch() -> tempfile::TempDir {
        // an exec-capable place: the build's target directory if cargo names it, the system temp dir otherwise (TMPDIR may point to a noexec tmpfs)
        for base in [std::env::var("CARGO_TARGET_TMPDIR").ok(), std::env::var("CARGO_MANIFEST_DIR").ok().map(|d| d + "/target"), Some("/tmp".to_string()), Some("/var/tmp".to_string())].into_iter().flatten() {
            if let Ok(d) = tempfile::tempdir_in(&base) { return d; }
        }
        tempfile::tempdir().unwrap()
    }

    #[test]
    fn e_fault() {
        let program = ["/bin/sleep", "/usr/bin/sleep"].iter().map(Path::new).find(|p| p.exists()).expect("E-fault: cannot inject the fault: no sleep program");
        let base = scratch();
        let mut n_records = 0u64;
        {
            let mut log = MultiRecordLog::open(base.path()).unwrap();
            log.create_queue("q").unwrap();
            let payload = vec![0xABu8; 30_000];
            while log.list_file_numbers().len() < 4 { log.append_record("q", None, &payload[..]).unwrap(); n_records += 1; }
        }
        let files = wal_files(base.path());
        assert!(files.len() >= 4, "E-fault: layout: 4 WAL files expected");
        let mut fails: Vec<String> = Vec::new();
        let mut injected = 0;
        for k in 0..files.len() {
            let img = scratch();
            for f in &files { std::fs::copy(f, img.path().join(f.file_name().unwrap())).unwrap(); }
            let victim = img.path().join(files[k].file_name().unwrap());
            std::fs::remove_file(&victim).unwrap();
            std::fs::copy(program, &victim).unwrap();
            let mut child = match std::process::Command::new(&victim).arg("30").spawn() { Ok(c) => c, Err(e) => { eprintln!("E-fault: cannot inject the fault (spawn: {e})"); continue; } };
            std::thread::sleep(std::time::Duration::from_millis(50));
            // the fault is real: opening the file read+write fails
            let probe = std::fs::OpenOptions::new().read(true).write(true).open(&victim);
            if probe.is_ok() { let _ = child.kill(); let _ = child.wait(); eprintln!("E-fault: cannot inject the fault (the running program can be opened for writing)"); continue; }
            injected += 1;
            let dir = img.path().to_path_buf();
            let (tx, rx) = std::sync::mpsc::channel();
            std::thread::spawn(move || {
                let r = std::panic::catch_unwind(|| match MultiRecordLog::open(&dir) {
                    Ok(log) => format!("Ok with {} records of {}", log.range("q", ..).map(|it| it.count()).unwrap_or(0), "q"),
                    Err(ReadRecordError::IoError(e)) => format!("IoError {:?}", e.kind()),
                    Err(e) => format!("Err {e:?}"),
                });
                let _ = tx.send(r.unwrap_or_else(|_| "panic".to_string()));
            });
            let outcome = rx.recv_timeout(std::time::Duration::from_secs(20)).unwrap_or_else(|_| "no answer within 20 s".to_string());
            let _ = child.kill(); let _ = child.wait();
            if !outcome.starts_with("IoError") {
                fails.push(format!("E-HIST-FAIL tags=C11 run=E-fault layout=4-files-{n_records}-records fault=WAL file {k} of {} cannot be opened (ETXTBSY) :: open answers `{outcome}`, an I/O error must be reported", files.len()));
            }
        }
        eprintln!("E-fault: {injected} faults injected, {} failing", fails.len());
        for f in &fails { eprintln!("{f}"); }
        assert!(injected == files.len(), "E-fault: cannot inject the fault in this environment ({injected} of {} injected): no verdict", files.len());
        assert!(fails.is_empty(), "E-fault: {} failing cases, first: {}", fails.len(), fails[0]);
    }
}
