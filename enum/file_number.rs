// @append-to src/rolling/file_number.rs
// Bounded stand-in by ENUMERATION, executed natively (cargo test) -- not a proof and not symbolic: `format!("wal-{:020}")` does not finish
// in CBMC (K-fname-rt was tried: no verdict after 15 minutes).
#[cfg(test)]
mod verif_enum {
    use super::*;

    fn check(n: u64) {
        let name = FileNumber::new(n).filename();
        assert_eq!(name.len(), 24, "file name of {n} is not 24 bytes: {name}");
        assert!(name.starts_with("wal-"));
        assert!(name.as_bytes()[4..].iter().all(u8::is_ascii_digit));
        assert_eq!(name[4..].parse::<u64>().ok(), Some(n), "file name of {n} does not parse back: {name}");
    }

    /// E-fname-rt: filename() of a file number is `wal-` + exactly 20 decimal digits and parses back to that number.
    /// Bound: every d * 10^k (d in 0..=9, k in 0..=19) and its two neighbours, every 2^k and its two neighbours, u64::MAX,
    /// and 200000 pseudo-random numbers (xorshift, fixed seed).
    #[test]
    fn e_fname_rt() {
        let mut cases = 0u64;
        for k in 0u32..=19 {
            for d in 0u64..=9 {
                if let Some(n) = 10u64.checked_pow(k).and_then(|p| p.checked_mul(d)) {
                    for m in [n.wrapping_sub(1), n, n.wrapping_add(1)] { check(m); cases += 1; }
                }
            }
        }
        for k in 0u32..64 {
            let n = 1u64 << k;
            for m in [n - 1, n, n.wrapping_add(1)] { check(m); cases += 1; }
        }
        check(u64::MAX); cases += 1;
        let mut x: u64 = 0x9E37_79B9_7F4A_7C15;
        for _ in 0..200_000 {
            x ^= x << 13; x ^= x >> 7; x ^= x << 17;
            check(x >> (x % 64)); cases += 1;
        }
        eprintln!("E-fname-rt: {cases} cases");
    }
}
