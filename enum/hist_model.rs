// @append-to src/multi_record_log.rs
// E-hist: BOUNDED stand-in by EXHAUSTIVE ENUMERATION OF SHORT HISTORIES, executed natively (cargo test) against the real MultiRecordLog on real
// files (4-block WAL files under cfg(test)), compared after EVERY call with an executable reference model of the property texts (a map
// queue -> (retained (position, payload) list, next position)).  Not a proof and not symbolic.  It is used (DESIGN.md 13.13)
//   * in the thorough tier of the properties it can observe, and
//   * in the quick tier ONLY as a fall-back when the deductive verdict is "undecided" (a change Verus cannot follow: new helper function,
//     re-implemented body, unsupported construct): a failing history is a real failing input of the real code and is reported as the violation.
// Only the public API is used, so that the harness keeps compiling on refactored trees.
// Every failure carries the ids of the properties whose text it contradicts (tags); a check of property X reports only failures tagged X.
//
// Bound: two queues ("a": full alphabet, "bb": reduced alphabet) ; every history of a fixed number of operations (checks after every step, so every
// shorter history is covered) out of the alphabet in `all_ops()`; payload sizes 0, 3..7 and 70 000 bytes (the last spills over blocks, every
// second one rolls over to a new WAL file); persist policies: Always(Flush) for every history, DoNothing / Always(FlushAndFsync) for a third each.
#[cfg(test)]
mod verif_enum_hist {
    use super::*;
    use std::collections::BTreeMap;
    use std::ops::Bound;
    use std::path::{Path, PathBuf};

    const QUEUES: [&str; 2] = ["a", "bb"];
    const BLOCK: usize = crate::BLOCK_NUM_BYTES;
    const HDR: usize = 7;
    /// C16: "exceeds them by at most a small constant per retained record"
    const PER_RECORD_SLACK: usize = 64;

    #[derive(Clone, Copy, Debug, PartialEq)]
    enum Pos { Auto, Next, Last, Past, Future }
    #[derive(Clone, Copy, Debug, PartialEq)]
    enum Batch { Small, EmptyPayload, TwoLastEmpty, NoRecords, Big }
    #[derive(Clone, Copy, Debug, PartialEq)]
    enum Tr { BelowStart, FarBelow, Mid, Last, Future }
    #[derive(Clone, Copy, Debug, PartialEq)]
    enum Op { Create(usize), Delete(usize), Append(usize, Pos, Batch), Truncate(usize, Tr), Reopen }
    #[derive(Clone, Copy, Debug, PartialEq)]
    enum Pol { AlwaysFlush, AlwaysFsync, DoNothing }

    fn all_ops() -> Vec<Op> {
        use Batch::*; use Pos::*;
        vec![
            Op::Reopen,
            Op::Create(0), Op::Delete(0),
            Op::Append(0, Auto, Small), Op::Append(0, Auto, EmptyPayload), Op::Append(0, Auto, TwoLastEmpty), Op::Append(0, Auto, NoRecords), Op::Append(0, Auto, Big),
            Op::Append(0, Next, Small), Op::Append(0, Last, Small), Op::Append(0, Past, Small), Op::Append(0, Future, Small), Op::Append(0, Future, TwoLastEmpty),
            Op::Truncate(0, Tr::BelowStart), Op::Truncate(0, Tr::FarBelow), Op::Truncate(0, Tr::Mid), Op::Truncate(0, Tr::Last), Op::Truncate(0, Tr::Future),
            Op::Create(1), Op::Delete(1), Op::Append(1, Auto, Small), Op::Append(1, Auto, Big), Op::Truncate(1, Tr::Last),
        ]
    }
    /// the deeper run: what moves records across blocks / files, truncates and restarts
    fn core_ops() -> Vec<Op> {
        use Batch::*; use Pos::*;
        vec![
            Op::Reopen, Op::Append(0, Auto, Small), Op::Append(0, Auto, Big), Op::Append(0, Future, Small),
            Op::Truncate(0, Tr::Mid), Op::Truncate(0, Tr::Last), Op::Truncate(0, Tr::Future), Op::Truncate(0, Tr::FarBelow), Op::Append(1, Auto, Big), Op::Truncate(1, Tr::Last), Op::Delete(1),
        ]
    }

    #[derive(Clone, Debug, Default, PartialEq)]
    struct Q { start: u64, recs: Vec<(u64, Vec<u8>, u64, u64)> } // (position, payload, batch id, file in which the append started)
    impl Q { fn next(&self) -> u64 { self.recs.last().map(|r| r.0 + 1).unwrap_or(self.start) } }
    type Model = BTreeMap<&'static str, Q>;

    #[derive(Debug)]
    struct Fail { tags: Vec<&'static str>, detail: String, wrong: Vec<&'static str> } // wrong: the queues observed wrong (for the C18 attribution)
    fn fail<T>(tags: &[&'static str], detail: String) -> Result<T, Fail> { Err(Fail { tags: tags.to_vec(), detail, wrong: Vec::new() }) }

    // ---------------------------------------------------------------- the directory, seen independently of the crate
    fn wal_name(n: &str) -> Option<u64> {
        let d = n.strip_prefix("wal-")?;
        if d.len() == 20 && d.bytes().all(|b| b.is_ascii_digit()) { d.parse::<u64>().ok() } else { None }
    }
    fn wal_files(dir: &Path) -> Vec<(u64, PathBuf)> {
        let mut v: Vec<(u64, PathBuf)> = std::fs::read_dir(dir).unwrap().filter_map(|e| {
            let e = e.unwrap();
            if !e.file_type().unwrap().is_file() { return None; }
            wal_name(e.file_name().to_str()?).map(|n| (n, e.path()))
        }).collect();
        v.sort();
        v
    }
    /// (number of the last WAL file, its length, offset of the end of the data in it): an independent walk over the frame headers
    /// (checksum u32, length u16, type u8); an all-zero header ends the data; a block tail shorter than a header is padding
    fn end_of_data(dir: &Path) -> (u64, usize, usize) {
        let files = wal_files(dir);
        let (num, path) = files.last().expect("no WAL file").clone();
        let bytes = std::fs::read(path).unwrap();
        let zero_hdr = |p: usize| p + HDR > bytes.len() || bytes[p..p + HDR].iter().all(|b| *b == 0);
        let mut pos = 0usize;
        loop {
            if pos >= bytes.len() { return (num, bytes.len(), bytes.len()); }
            let rem = BLOCK - pos % BLOCK;
            if rem < HDR {
                if zero_hdr(pos + rem) { return (num, bytes.len(), pos); }
                pos += rem;
                continue;
            }
            if zero_hdr(pos) { return (num, bytes.len(), pos); }
            pos += HDR + u16::from_le_bytes([bytes[pos + 4], bytes[pos + 5]]) as usize;
        }
    }
    fn dir_image(dir: &Path) -> BTreeMap<String, Vec<u8>> {
        let mut m = BTreeMap::new();
        for e in std::fs::read_dir(dir).unwrap() {
            let e = e.unwrap();
            let name = e.file_name().to_str().unwrap().to_string();
            if e.file_type().unwrap().is_file() { m.insert(name, std::fs::read(e.path()).unwrap()); } else { m.insert(name + "/", Vec::new()); }
        }
        m
    }

    // ---------------------------------------------------------------- observation of the log through its public accessors
    type Obs = BTreeMap<String, (Vec<(u64, Vec<u8>)>, Option<u64>, Option<(u64, Vec<u8>)>)>;
    fn observe(log: &MultiRecordLog) -> Obs {
        let mut names: Vec<String> = log.list_queues().map(|s| s.to_string()).collect();
        names.sort();
        let mut o = Obs::new();
        for n in names {
            let recs: Vec<(u64, Vec<u8>)> = log.range(&n, ..).unwrap().map(|r| (r.position, r.payload.to_vec())).collect();
            let lp = log.last_position(&n).unwrap();
            let lr = log.last_record(&n).unwrap().map(|r| (r.position, r.payload.to_vec()));
            o.insert(n, (recs, lp, lr));
        }
        o
    }
    fn model_obs(m: &Model) -> Obs {
        m.iter().map(|(k, q)| {
            let recs: Vec<(u64, Vec<u8>)> = q.recs.iter().map(|r| (r.0, r.1.clone())).collect();
            (k.to_string(), (recs.clone(), q.next().checked_sub(1), recs.last().cloned()))
        }).collect()
    }
    fn in_bounds(p: u64, b: &(Bound<u64>, Bound<u64>)) -> bool {
        (match b.0 { Bound::Included(s) => p >= s, Bound::Excluded(s) => p > s, Bound::Unbounded => true })
            && (match b.1 { Bound::Included(e) => p <= e, Bound::Excluded(e) => p < e, Bound::Unbounded => true })
    }
    /// C05: range(bounds) for every kind of bound around the retained positions
    fn check_ranges(log: &MultiRecordLog, m: &Model) -> Result<(), Fail> {
        for (k, q) in m {
            let mut ps: Vec<u64> = Vec::new();
            if let (Some(f), Some(l)) = (q.recs.first(), q.recs.last()) {
                ps.extend([f.0, q.recs[q.recs.len() / 2].0, l.0, l.0 + 1]);
                if f.0 > 0 { ps.push(f.0 - 1); }
            } else { ps.push(q.start); }
            ps.sort(); ps.dedup();
            for &p in &ps {
                let p2 = *ps.last().unwrap();
                let bs = [(Bound::Included(p), Bound::Unbounded), (Bound::Excluded(p), Bound::Unbounded), (Bound::Unbounded, Bound::Included(p)),
                          (Bound::Unbounded, Bound::Excluded(p)), (Bound::Included(p), Bound::Excluded(p2)), (Bound::Excluded(p), Bound::Included(p2))];
                for b in bs {
                    let got: Vec<(u64, Vec<u8>)> = log.range(k, b).unwrap().map(|r| (r.position, r.payload.to_vec())).collect();
                    let exp: Vec<(u64, Vec<u8>)> = q.recs.iter().filter(|r| in_bounds(r.0, &b)).map(|r| (r.0, r.1.clone())).collect();
                    if got != exp {
                        return fail(&["C05"], format!("range({k}, {b:?}) returns positions {:?}, the retained records in these bounds are {:?} (or payload bytes differ)",
                                                     got.iter().map(|r| r.0).collect::<Vec<_>>(), exp.iter().map(|r| r.0).collect::<Vec<_>>()));
                    }
                }
            }
        }
        Ok(())
    }
    fn short(o: &Obs) -> String {
        o.iter().map(|(k, v)| format!("{k}: positions {:?} sizes {:?} last_position {:?} last_record {:?}", v.0.iter().map(|r| r.0).collect::<Vec<_>>(),
                                        v.0.iter().map(|r| r.1.len()).collect::<Vec<_>>(), v.1, v.2.as_ref().map(|r| (r.0, r.1.len())))).collect::<Vec<_>>().join("; ")
    }
    /// C16 over the model
    fn check_memory(log: &MultiRecordLog, m: &Model) -> Result<(), Fail> {
        let u = log.resource_usage();
        let names: usize = m.keys().map(|k| k.len()).sum();
        let payload: usize = m.values().map(|q| q.recs.iter().map(|r| r.1.len()).sum::<usize>()).sum();
        let nrec: usize = m.values().map(|q| q.recs.len()).sum();
        if u.memory_used_bytes < names + payload {
            return fail(&["C16"], format!("memory_used_bytes {} is below queue-name bytes {names} + retained payload bytes {payload}", u.memory_used_bytes));
        }
        if u.memory_used_bytes > names + payload + PER_RECORD_SLACK * nrec {
            return fail(&["C16"], format!("memory_used_bytes {} exceeds name bytes {names} + retained payload bytes {payload} by more than {PER_RECORD_SLACK} per retained record ({nrec} records)", u.memory_used_bytes));
        }
        if u.memory_used_bytes > u.memory_allocated_bytes {
            return fail(&["C16"], format!("memory_used_bytes {} > memory_allocated_bytes {}", u.memory_used_bytes, u.memory_allocated_bytes));
        }
        Ok(())
    }
    /// C06 (same statement as E-c06) + C17 (only WAL-named regular files besides the strays, strays untouched)
    fn check_directory(log: &MultiRecordLog, dir: &Path, m: &Model, file_at_call: u64, after_gc_call: bool, ever: &mut std::collections::BTreeSet<u64>) -> Result<(), Fail> {
        for f in wal_files(dir) { ever.insert(f.0); }
        let img = dir_image(dir);
        for (k, v) in &img {
            let stray = match k.as_str() { "notes.txt" => Some(&b"keep me"[..]), "wal-123" => Some(&b"not a wal file"[..]), "wal-00000000000000099999/" => Some(&b""[..]), _ => None };
            match stray {
                Some(content) => if v.as_slice() != content { return fail(&["C17"], format!("foreign entry {k} was modified")); },
                None => if wal_name(k).is_none() { return fail(&["C17"], format!("the library created {k}, which is not wal-<20 digits>")); },
            }
        }
        for s in ["notes.txt", "wal-123", "wal-00000000000000099999/"] {
            if !img.contains_key(s) { return fail(&["C17"], format!("foreign entry {s} was removed")); }
        }
        if !after_gc_call { return Ok(()); }
        let on_disk: Vec<u64> = wal_files(dir).into_iter().map(|f| f.0).collect();
        if on_disk != log.list_file_numbers() {
            return fail(&["C06"], format!("directory holds WAL files {on_disk:?}, the log tracks {:?}", log.list_file_numbers()));
        }
        // contiguous: no WAL file that was ever seen in this directory is missing between the oldest and the newest one (numbering gaps are allowed, C17)
        let run: Vec<u64> = ever.range(on_disk[0]..=*on_disk.last().unwrap()).copied().collect();
        if on_disk != run { return fail(&["C06"], format!("WAL files {on_disk:?} are not a contiguous run (files seen so far: {ever:?})")); }
        let oldest_needed = m.values().filter_map(|q| q.recs.first().map(|r| r.3)).min();
        let bound = match oldest_needed { Some(f) => f.min(file_at_call), None => file_at_call };
        if on_disk[0] < bound { return fail(&["C06"], format!("file {} kept although nothing retained lives before file {bound} (files {on_disk:?})", on_disk[0])); }
        let sizes: usize = wal_files(dir).iter().map(|f| std::fs::metadata(&f.1).unwrap().len() as usize).sum();
        if log.resource_usage().disk_used_bytes != sizes { return fail(&["C06"], format!("disk_used_bytes {} != total size of the WAL files {sizes}", log.resource_usage().disk_used_bytes)); }
        Ok(())
    }
    /// what a restart / a crash image must show against the model; `exact`: clean restart (C01) or image of a fully persisted state (C03)
    fn check_recovered(got: &Obs, m: &Model, base: &'static str) -> Result<(), Fail> {
        let exp = model_obs(m);
        if *got == exp { return Ok(()); }
        let mut tags = vec![base];
        for (k, q) in m {
            match got.get(*k) {
                Some(g) => {
                    if g.1.map(|p| p + 1).unwrap_or(0) < q.next() { tags.push("C04"); }
                    // C12: a batch partly there
                    let mut per_batch: BTreeMap<u64, (usize, usize)> = BTreeMap::new();
                    for r in &q.recs { let e = per_batch.entry(r.2).or_default(); e.0 += 1; if g.0.iter().any(|x| x.0 == r.0 && x.1 == r.1) { e.1 += 1; } }
                    if per_batch.values().any(|(n, found)| *found != 0 && found != n) { tags.push("C12"); }
                }
                None => { if q.next() > 0 { tags.push("C04"); } }
            }
        }
        tags.sort(); tags.dedup();
        let wrong: Vec<&'static str> = QUEUES.iter().copied().filter(|k| got.get(*k) != exp.get(*k)).collect();
        Err(Fail { tags, detail: format!("recovered state differs from the state before: recovered [{}], expected [{}]", short(got), short(&exp)), wrong })
    }

    fn policy(p: Pol) -> PersistPolicy {
        match p { Pol::AlwaysFlush => PersistPolicy::Always(PersistAction::Flush), Pol::AlwaysFsync => PersistPolicy::Always(PersistAction::FlushAndFsync), Pol::DoNothing => PersistPolicy::DoNothing }
    }
    fn copy_dir(from: &Path, to: &Path) {
        for e in std::fs::read_dir(from).unwrap() {
            let e = e.unwrap();
            if e.file_type().unwrap().is_file() { std::fs::copy(e.path(), to.join(e.file_name())).unwrap(); } else { std::fs::create_dir(to.join(e.file_name())).unwrap(); }
        }
    }

    /// what the files hold right now (the log still open, nothing flushed for the occasion) must recover to exactly the model
    fn crash_image(dir: &Path, m: &Model, pol: Pol) -> Result<(), Fail> {
        let img = tempfile::tempdir().unwrap();
        copy_dir(dir, img.path());
        match MultiRecordLog::open_with_prefs(img.path(), policy(pol)) {
            Ok(l2) => check_recovered(&observe(&l2), m, "C03").map_err(|f| Fail { tags: f.tags, detail: format!("process-crash image (every call so far is persisted under {pol:?}): {}", f.detail), wrong: f.wrong }),
            Err(e) => Err(Fail { tags: vec!["C03", "C10"], detail: format!("process-crash image: open fails: {e:?}"), wrong: m.keys().copied().collect() }),
        }
    }

    /// one history under one policy; Err = the first step at which the real code contradicts the model
    fn run(hist: &[Op], pol: Pol) -> Result<(), Fail> {
        let tmp = tempfile::tempdir().unwrap();
        let dir = tmp.path();
        std::fs::write(dir.join("notes.txt"), b"keep me").unwrap();
        std::fs::write(dir.join("wal-123"), b"not a wal file").unwrap();
        std::fs::create_dir(dir.join("wal-00000000000000099999")).unwrap();
        let mut log = match MultiRecordLog::open_with_prefs(dir, policy(pol)) { Ok(l) => l, Err(e) => return fail(&["C10", "C17"], format!("open of a fresh directory with foreign entries fails: {e:?}")) };
        let mut m: Model = Model::new();
        let mut seq: u64 = 0;
        let mut ever_files: std::collections::BTreeSet<u64> = wal_files(dir).into_iter().map(|f| f.0).collect();
        let mut all_persisted = true; // every call so far is persisted (policy Always, or create/delete, under which everything before is persisted too)
        for (i, op) in hist.iter().enumerate() {
            let step = format!("step {} {:?}", i + 1, op);
            let cur_file = *log.list_file_numbers().last().unwrap();
            let before = end_of_data(dir);
            let always = pol != Pol::DoNothing;
            let synced_before = all_persisted; // the files show everything written so far
            // ---- what the model says this call is
            #[derive(Debug, PartialEq)]
            enum Exp { Rejected(&'static str), NoOp, Appended(u64), Truncated(usize), Created, Deleted, Skip }
            let mut payloads: Vec<Vec<u8>> = Vec::new();
            let mut pos_opt: Option<u64> = None;
            let mut trunc_to: u64 = 0;
            let exp = match *op {
                Op::Reopen => Exp::Skip,
                Op::Create(q) => if m.contains_key(QUEUES[q]) { Exp::Rejected("AlreadyExists") } else { Exp::Created },
                Op::Delete(q) => if m.contains_key(QUEUES[q]) { Exp::Deleted } else { Exp::Rejected("MissingQueue") },
                Op::Append(q, pos, batch) => {
                    seq += 1;
                    payloads = match batch {
                        Batch::Small => vec![vec![seq as u8; 3 + (seq % 5) as usize]], Batch::EmptyPayload => vec![vec![]],
                        Batch::TwoLastEmpty => vec![vec![seq as u8; 4], vec![]], Batch::NoRecords => vec![], Batch::Big => vec![vec![seq as u8; 70_000]],
                    };
                    match m.get(QUEUES[q]) {
                        None => { pos_opt = match pos { Pos::Auto => None, _ => Some(1) }; Exp::Rejected("MissingQueue") }
                        Some(qm) => {
                            let next = qm.next();
                            pos_opt = match pos { Pos::Auto => None, Pos::Next => Some(next), Pos::Last => next.checked_sub(1), Pos::Past => next.checked_sub(2), Pos::Future => Some(next + 2) };
                            if pos != Pos::Auto && pos_opt.is_none() { Exp::Skip }
                            else if pos_opt.map(|p| p + 1 == next).unwrap_or(false) { Exp::NoOp }
                            else if pos_opt.map(|p| p < next).unwrap_or(false) { Exp::Rejected("Past") }
                            else if payloads.is_empty() { Exp::NoOp }
                            else { Exp::Appended(pos_opt.unwrap_or(next)) }
                        }
                    }
                }
                Op::Truncate(q, tr) => match m.get(QUEUES[q]) {
                    None => { trunc_to = 1; Exp::Rejected("MissingQueue") }
                    Some(qm) => {
                        let t = match tr {
                            Tr::BelowStart => qm.recs.first().map(|r| r.0).unwrap_or(qm.start).checked_sub(1),
                            Tr::FarBelow => qm.next().checked_sub(3), // a stale request when the queue is empty, an ordinary partial truncation otherwise
                            Tr::Mid => if qm.recs.len() >= 2 { Some(qm.recs[qm.recs.len() / 2 - 1].0) } else { None },
                            Tr::Last => qm.recs.last().map(|r| r.0),
                            Tr::Future => Some(qm.next() + 3),
                        };
                        match t { None => Exp::Skip, Some(t) => { trunc_to = t; Exp::Truncated(qm.recs.iter().filter(|r| r.0 <= t).count()) } }
                    }
                },
            };
            if exp == Exp::Skip && *op != Op::Reopen { continue; }
            let no_trace = matches!(exp, Exp::Rejected(_) | Exp::NoOp);
            let img_before = if no_trace { let _ = log.persist(PersistAction::Flush); Some(dir_image(dir)) } else { None };
            let before = if no_trace { end_of_data(dir) } else { before };
            let used_before = log.resource_usage().memory_used_bytes;
            // ---- the call
            let mut wal_bytes: Option<u64> = None;
            let mut evicted_payload: usize = 0;
            match *op {
                Op::Reopen => {
                    drop(log);
                    log = match MultiRecordLog::open_with_prefs(dir, policy(pol)) { Ok(l) => l, Err(e) => return Err(Fail { tags: vec!["C01", "C10"], detail: format!("{step}: open after a clean shutdown fails: {e:?}"), wrong: m.keys().copied().collect() }) };
                    let got = observe(&log);
                    check_recovered(&got, &m, "C01").map_err(|f| Fail { tags: f.tags, detail: format!("{step}: {}", f.detail), wrong: f.wrong })?;
                    all_persisted = true;
                }
                Op::Create(q) => {
                    let r = log.create_queue(QUEUES[q]);
                    match (&exp, r) {
                        (Exp::Created, Ok(o)) => { wal_bytes = Some(o.wal_bytes_written); m.insert(QUEUES[q], Q::default()); all_persisted = true; }
                        (Exp::Rejected(_), Err(CreateQueueError::AlreadyExists)) => { wal_bytes = Some(0); }
                        (_, r) => return fail(if no_trace { &["C05", "C13"] } else { &["C05"] }, format!("{step}: returns {r:?}, the specification says {exp:?}")),
                    }
                }
                Op::Delete(q) => {
                    let r = log.delete_queue(QUEUES[q]);
                    match (&exp, r) {
                        (Exp::Deleted, Ok(o)) => { wal_bytes = Some(o.wal_bytes_written); m.remove(QUEUES[q]); all_persisted = true; }
                        (Exp::Rejected(_), Err(DeleteQueueError::MissingQueue(_))) => { wal_bytes = Some(0); }
                        (_, r) => return fail(if no_trace { &["C05", "C13"] } else { &["C05"] }, format!("{step}: returns {r:?}, the specification says {exp:?}")),
                    }
                }
                Op::Append(q, _, _) => {
                    // the single-record entry point for the 1-record batches Small / Big, the batch entry point otherwise
                    let single = payloads.len() == 1 && !payloads[0].is_empty();
                    let r = if single { log.append_record(QUEUES[q], pos_opt, payloads[0].as_slice()) } else { log.append_records(QUEUES[q], pos_opt, payloads.iter().map(|p| p.as_slice())) };
                    match (&exp, r) {
                        (Exp::Appended(p), Ok(o)) => {
                            let last = *p + payloads.len() as u64 - 1;
                            if o.last_position != Some(last) {
                                let mut tags = vec!["C05"];
                                if o.last_position.map(|l| l < last).unwrap_or(true) { tags.push("C04"); }
                                if payloads.len() >= 2 {
                                    // C12: a batch applied in part (its first records are there, its tail is not)
                                    let g = observe(&log);
                                    if let Some(gq) = g.get(QUEUES[q]) {
                                        let n = payloads.iter().enumerate().filter(|(j, pl)| gq.0.iter().any(|x| x.0 == *p + *j as u64 && x.1 == **pl)).count();
                                        if n != 0 && n != payloads.len() { tags.push("C12"); }
                                    }
                                }
                                return fail(&tags, format!("{step} (position_opt {pos_opt:?}, {} records): last_position {:?}, the specification says Some({last})", payloads.len(), o.last_position));
                            }
                            wal_bytes = Some(o.wal_bytes_written);
                            let qm = m.get_mut(QUEUES[q]).unwrap();
                            for (j, pl) in payloads.iter().enumerate() { qm.recs.push((*p + j as u64, pl.clone(), seq, cur_file)); }
                            all_persisted = always;
                        }
                        (Exp::NoOp, Ok(o)) => {
                            if o.last_position.is_some() { return fail(&["C05", "C13"], format!("{step} (position_opt {pos_opt:?}, {} records) is a no-op but reports last_position {:?}", payloads.len(), o.last_position)); }
                            wal_bytes = Some(o.wal_bytes_written);
                        }
                        (Exp::Rejected("Past"), Err(AppendError::Past)) | (Exp::Rejected("MissingQueue"), Err(AppendError::MissingQueue(_))) => { wal_bytes = Some(0); }
                        (_, r) => {
                            let mut tags = if no_trace { vec!["C05", "C13"] } else { vec!["C05"] };
                            // C04: a position at or below one already handed out is handed out again
                            if let (Ok(o), Some(qm)) = (&r, m.get(QUEUES[q])) { if o.last_position.map(|l| l < qm.next()).unwrap_or(false) { tags.push("C04"); } }
                            return fail(&tags, format!("{step} (position_opt {pos_opt:?}, {} records): returns {r:?}, the specification says {exp:?}", payloads.len()));
                        }
                    }
                }
                Op::Truncate(q, _) => {
                    let r = log.truncate(QUEUES[q], ..=trunc_to);
                    match (&exp, r) {
                        (Exp::Truncated(n), Ok(o)) => {
                            if o.evicted_records != *n { return fail(&["C05"], format!("{step} (..={trunc_to}): evicted_records {}, the specification says {n}", o.evicted_records)); }
                            wal_bytes = Some(o.wal_bytes_written);
                            let qm = m.get_mut(QUEUES[q]).unwrap();
                            evicted_payload = qm.recs.iter().filter(|r| r.0 <= trunc_to).map(|r| r.1.len()).sum();
                            if qm.start <= trunc_to {
                                let next = qm.next();
                                qm.recs.retain(|r| r.0 > trunc_to);
                                if trunc_to + 1 >= next { qm.recs.clear(); }
                                qm.start = trunc_to + 1;
                            }
                            all_persisted = always;
                        }
                        (Exp::Rejected(_), Err(TruncateError::MissingQueue(_))) => { wal_bytes = Some(0); }
                        (_, r) => return fail(if no_trace { &["C05", "C13"] } else { &["C05"] }, format!("{step} (..={trunc_to}): returns {r:?}, the specification says {exp:?}")),
                    }
                }
            }
            // ---- the observable state after the call
            let got = observe(&log);
            let expo = model_obs(&m);
            if got != expo && *op != Op::Reopen {
                let mut tags = vec!["C05"];
                let addressed = match *op { Op::Create(q) | Op::Delete(q) | Op::Append(q, _, _) | Op::Truncate(q, _) => QUEUES[q], Op::Reopen => "" };
                if QUEUES.iter().any(|k| *k != addressed && got.get(*k) != expo.get(*k)) { tags.push("C18"); }
                if no_trace { tags.push("C13"); }
                if let (Some(g), Some(e)) = (got.get(addressed), expo.get(addressed)) { if g.1 < e.1 { tags.push("C04"); } }
                // C12: a batch applied in part
                if payloads.len() >= 2 && matches!(exp, Exp::Appended(_)) {
                    if let Some(g) = got.get(addressed) {
                        let n = m[addressed].recs.iter().filter(|r| r.2 == seq && g.0.iter().any(|x| x.0 == r.0 && x.1 == r.1)).count();
                        if n != 0 && n != payloads.len() { tags.push("C12"); }
                    }
                }
                let wrong: Vec<&'static str> = QUEUES.iter().copied().filter(|k| got.get(*k) != expo.get(*k)).collect();
                return Err(Fail { tags, detail: format!("{step}: observable state [{}], the specification says [{}]", short(&got), short(&expo)), wrong });
            }
            for k in QUEUES.iter().chain(["nope"].iter()) {
                if log.queue_exists(k) != m.contains_key(*k) { return fail(&["C05"], format!("{step}: queue_exists({k}) = {}", log.queue_exists(k))); }
            }
            let summary = log.summary();
            if summary.queues.keys().map(|s| s.as_str()).collect::<Vec<_>>() != m.keys().copied().collect::<Vec<_>>()
                || m.iter().any(|(k, q)| summary.queues[*k].end != q.next().checked_sub(1)) {
                return fail(&["C05"], format!("{step}: summary() does not list the queues with their last positions"));
            }
            check_ranges(&log, &m).map_err(|f| Fail { tags: f.tags, detail: format!("{step}: {}", f.detail), wrong: f.wrong })?;
            check_memory(&log, &m).map_err(|f| Fail { tags: f.tags, detail: format!("{step}: {}", f.detail), wrong: f.wrong })?;
            if matches!(exp, Exp::Truncated(_)) {
                let used = log.resource_usage().memory_used_bytes;
                if used + evicted_payload > used_before { return fail(&["C16"], format!("{step}: memory_used_bytes went from {used_before} to {used} although {evicted_payload} payload bytes were evicted")); }
            }
            if m.values().all(|q| q.recs.is_empty()) {
                let names: usize = m.keys().map(|k| k.len()).sum();
                let used = log.resource_usage().memory_used_bytes;
                if used != names { return fail(&["C16"], format!("{step}: every queue is empty but memory_used_bytes is {used}, the names-only baseline is {names}")); }
            }
            let gc_call = matches!(*op, Op::Reopen) || matches!(exp, Exp::Truncated(_) | Exp::Deleted);
            check_directory(&log, dir, &m, cur_file, gc_call, &mut ever_files).map_err(|f| Fail { tags: f.tags, detail: format!("{step}: {}", f.detail), wrong: f.wrong })?;
            // ---- C13: no trace in the WAL files, reported bytes 0
            if no_trace {
                if wal_bytes != Some(0) { return fail(&["C13", "C15"], format!("{step} is rejected / a no-op but reports wal_bytes_written {wal_bytes:?}")); }
                let _ = log.persist(PersistAction::Flush);
                if Some(dir_image(dir)) != img_before { return fail(&["C13"], format!("{step} is rejected / a no-op but the WAL files changed (after the next flush)")); }
            }
            // ---- C15: reported bytes == growth of the data on disk (observable when nothing was buffered before the call and the call flushes:
            //      Always policies; create / delete under any policy)
            if let Some(w) = wal_bytes {
                if synced_before && (always || matches!(exp, Exp::Created | Exp::Deleted)) {
                    let after = end_of_data(dir);
                    let growth = if after.0 == before.0 { after.2 as i64 - before.2 as i64 } else {
                        let between = wal_files(dir).iter().filter(|f| f.0 > before.0 && f.0 < after.0).map(|f| std::fs::metadata(&f.1).unwrap().len() as i64).sum::<i64>();
                        (before.1 - before.2) as i64 + between + after.2 as i64
                    };
                    if growth != w as i64 {
                        let what = format!("{step}: wal_bytes_written {w}, the data in the WAL files grew by {growth} bytes (file {} offset {} -> file {} offset {})", before.0, before.2, after.0, after.2);
                        // bytes reported but not in the files: either they never reached the OS although this call persists (C03), or the count is wrong (C15)
                        if growth < w as i64 {
                            if let Err(f) = crash_image(dir, &m, pol) {
                                return Err(Fail { tags: f.tags, detail: format!("{what}: the call returned without its bytes having reached the file -- {}", f.detail), wrong: f.wrong });
                            }
                            let _ = log.persist(PersistAction::Flush);
                            let after2 = end_of_data(dir);
                            if after2.0 == after.0 && after2.2 as i64 - after.2 as i64 == w as i64 - growth {
                                return fail(&["C03"], format!("{what}: the missing bytes appear after an explicit flush -- the call returned under {pol:?} without flushing them"));
                            }
                        }
                        return fail(&["C15"], what);
                    }
                }
            }
        }
        // ---- C03 (process-crash image of a state in which every call is persisted): what is in the files now recovers to exactly the model
        if all_persisted { crash_image(dir, &m, pol)?; }
        Ok(())
    }

    fn run_caught(hist: &[Op], pol: Pol) -> Result<(), Fail> {
        let h: Vec<Op> = hist.to_vec();
        match std::panic::catch_unwind(move || run(&h, pol)) {
            Ok(r) => r,
            Err(p) => {
                let msg = p.downcast_ref::<String>().cloned().or_else(|| p.downcast_ref::<&str>().map(|s| s.to_string())).unwrap_or_default();
                fail(&["C10", "C05"], format!("panic: {msg}"))
            }
        }
    }

    /// every history of exactly `depth` ops over `ops`, spread over the cores; failures come back with their tags refined:
    /// C14 when the default policy passes the same history, C18 when the history projected on the failing queue's own calls passes
    fn explore(prefix: &[Op], ops: &[Op], depth: usize, label: &str) -> (u64, Vec<String>) {
        let total = (ops.len() as u64).pow(depth as u32);
        let nthreads = std::thread::available_parallelism().map(|n| n.get()).unwrap_or(4) as u64;
        let fails = std::sync::Mutex::new(Vec::<String>::new());
        let seen_tags = std::sync::Mutex::new(std::collections::BTreeSet::<String>::new());
        std::thread::scope(|s| {
            for t in 0..nthreads {
                let fails = &fails; let seen_tags = &seen_tags;
                s.spawn(move || {
                    let mut idx = t;
                    while idx < total {
                        let mut h: Vec<Op> = prefix.to_vec();
                        let mut x = idx;
                        for _ in 0..depth { h.push(ops[(x % ops.len() as u64) as usize]); x /= ops.len() as u64; }
                        let pols: &[Pol] = match idx % 3 { 0 => &[Pol::AlwaysFlush, Pol::DoNothing], 1 => &[Pol::AlwaysFlush, Pol::AlwaysFsync], _ => &[Pol::AlwaysFlush] };
                        for &pol in pols {
                            if let Err(mut f) = run_caught(&h, pol) {
                                if pol != Pol::AlwaysFlush && run_caught(&h, Pol::AlwaysFlush).is_ok() { f.tags.push("C14"); }
                                for q in 0..2 {
                                    // C18: the queue observed wrong is fine when the calls addressed to the OTHER queue are removed from the history
                                    if !f.wrong.contains(&QUEUES[q]) || f.tags.contains(&"C18") { continue; }
                                    let proj: Vec<Op> = h.iter().copied().filter(|o| match o { Op::Create(x) | Op::Delete(x) | Op::Append(x, _, _) | Op::Truncate(x, _) => *x == q, Op::Reopen => true }).collect();
                                    if proj.len() < h.len() && proj.iter().any(|o| !matches!(o, Op::Reopen)) && run_caught(&proj, pol).is_ok() { f.tags.push("C18"); }
                                }
                                f.tags.sort(); f.tags.dedup();
                                let key = f.tags.join(",");
                                let mut seen = seen_tags.lock().unwrap();
                                let n = seen.iter().filter(|k| k.starts_with(&(key.clone() + "#"))).count();
                                if n < 3 {
                                    seen.insert(format!("{key}#{n}"));
                                    fails.lock().unwrap().push(format!("E-HIST-FAIL tags={key} run={label} policy={pol:?} history={h:?} :: {}", f.detail));
                                }
                                break;
                            }
                        }
                        idx += nthreads;
                    }
                });
            }
        });
        (total, fails.into_inner().unwrap())
    }

    fn report(parts: Vec<(u64, Vec<String>)>, name: &str) {
        let total: u64 = parts.iter().map(|p| p.0).sum();
        let fails: Vec<String> = parts.into_iter().flat_map(|p| p.1).collect();
        eprintln!("{name}: {total} histories, {} failing (at most 3 reported per tag set)", fails.len());
        for f in &fails { eprintln!("{f}"); }
        assert!(fails.is_empty(), "{name}: {} failing histories, first: {}", fails.len(), fails[0]);
    }

    /// E-hist (fall-back of the quick tier): every history of 3 ops over the full alphabet, both queues created, then every history of 5 ops over the core alphabet
    #[test]
    fn e_hist_quick() {
        report(vec![explore(&[], &all_ops(), 3, "full-3"), explore(&[Op::Create(0), Op::Create(1)], &core_ops(), 5, "core-5")], "E-hist");
    }
    /// E-hist-deep (thorough tier): depth 4 over the full alphabet, both queues created, then depth 6 over the core alphabet
    #[test]
    fn e_hist_deep() {
        report(vec![explore(&[], &all_ops(), 4, "full-4"), explore(&[Op::Create(0), Op::Create(1)], &core_ops(), 6, "core-6")], "E-hist-deep");
    }
}
