// @append-to src/rolling/directory.rs
// Bounded stand-in by EXHAUSTIVE ENUMERATION, executed natively (cargo test) -- not a proof and not symbolic:
// CBMC needs > 12 GB for any harness that builds a BTreeSet<FileNumber> (K-gate was tried and dropped), and
// no contract can state Arc::strong_count (C06 in DESIGN.md).  Bound: trackers of 1..=5 files with consecutive or
// gapped numbers, every subset of files pinned by a live clone.
#[cfg(test)]
mod verif_enum {
    use super::*;

    /// E-gate: the GC gate agrees with what a GC pass does, and a GC pass removes exactly the unpinned prefix
    /// short of the last file.
    #[test]
    fn e_gate() {
        let mut cases = 0u32;
        for n in 1usize..=5 {
            for gap in [1u64, 3u64] {
                for mask in 0u32..(1u32 << n) {
                    let nums: Vec<u64> = (0..n as u64).map(|i| 7 + i * gap).collect();
                    let files = FileTracker::from_file_numbers(nums.clone()).unwrap();
                    // pin the files selected by `mask`
                    let mut pins: Vec<FileNumber> = Vec::new();
                    let mut cur = files.first().clone();
                    let mut idx = 0usize;
                    loop {
                        if mask & (1 << idx) != 0 {
                            pins.push(cur.clone());
                        }
                        match files.next(&cur) {
                            Some(nx) => {
                                cur = nx;
                                idx += 1;
                            }
                            None => break,
                        }
                    }
                    drop(cur);
                    assert_eq!(idx + 1, n);
                    let mut dir = Directory {
                        dir: PathBuf::from("/nonexistent-verif-enum"),
                        files,
                    };
                    // expected: the longest unpinned prefix, never the last file
                    let mut expect = 0usize;
                    while expect + 1 < n && mask & (1 << expect) == 0 {
                        expect += 1;
                    }
                    let gate = dir.has_files_that_can_be_deleted();
                    assert_eq!(gate, expect > 0, "gate: n={n} gap={gap} pinned-mask={mask:#b}");
                    let mut removed = 0usize;
                    while let Some(f) = dir.files.take_first_unused() {
                        assert_eq!(f.file_number(), nums[removed], "order: n={n} gap={gap} pinned-mask={mask:#b}");
                        removed += 1;
                    }
                    assert_eq!(removed, expect, "gc pass: n={n} gap={gap} pinned-mask={mask:#b}");
                    assert_eq!(dir.files.count(), n - removed);
                    assert_eq!(dir.first_file_number().file_number(), nums[removed]);
                    drop(pins);
                    cases += 1;
                }
            }
        }
        assert_eq!(cases, 2 * (2 + 4 + 8 + 16 + 32));
    }
}
