// @append-to src/multi_record_log.rs
// E-dmg: BOUNDED stand-in by EXHAUSTIVE ENUMERATION OF SINGLE-SITE DAMAGE over a fixed family of WAL layouts, executed natively (cargo test)
// against the real MultiRecordLog::open on real files -- not a proof and not symbolic.  Used like E-hist (DESIGN.md 13.13): thorough tier, and
// quick-tier fall-back when the deductive verdict is "undecided".  Public API + raw edits of the WAL files only.
// Layouts: 43 scenarios built through the public API (policy Always(Flush), no file is garbage-collected): an entry ending / starting with
// k in {0,1,6,7,8,9,40} bytes left in its 32 KiB block, 1-frame, 2-frame and 3-frame entries, a 4-record batch (last record empty) whose
// record boundary falls one byte before / exactly on / one byte after a frame boundary, delete + re-create of a queue, entries spanning a WAL
// file boundary, truncations (legitimate head removal of a batch, truncation of an empty queue into the future).
// Damage, for EVERY frame of every layout (an independent walk over the frame headers finds them): one payload byte flipped (first / middle /
// last), one checksum byte flipped, the type byte set to every other value in {0..5, 255}, the length set to len+-1, 0, 65535, "exactly to the
// block end" and one beyond, the whole block zeroed, everything from (frame start + {0,3,7,7+len/2}) to the end of the log zeroed (torn tail), the frame overwritten
// by a copy of another frame of the same length (duplicated / transposed frames).
// Whole-file damage (C10 only): each file removed / cut to 0, 100, one block + 100 bytes / extended by two blocks of 0xFF / duplicated under the next
// number; an empty file and a sub-directory with the next WAL names.
// Oracles (tags): open never panics nor do the accessors (C10); every recovered record is byte-for-byte one that was appended, positions
// strictly increasing (C08); a batch is recovered whole, not at all, or minus a head that a later truncate call removed (C12); damage confined
// to the payload / checksum bytes of one frame: open succeeds and every retained record of every OTHER entry is recovered intact (C09);
// no damage: the reopened log shows exactly the state before (C07, C01); while the layouts are built (default policy Always(Flush)):
// the wal_bytes_written of every call equals the growth of the data in the files, measured by the independent frame walk (C15).
#[cfg(test)]
mod verif_enum_dmg {
    use super::*;
    use std::collections::BTreeMap;
    use std::path::{Path, PathBuf};

    const BLOCK: usize = crate::BLOCK_NUM_BYTES;
    const HDR: usize = 7;

    #[derive(Clone)]
    enum Step { Create(&'static str), Delete(&'static str), Append(&'static str, Vec<usize>), Truncate(&'static str, u64), Align(usize) }

    impl std::fmt::Debug for Step {
        fn fmt(&self, f: &mut std::fmt::Formatter) -> std::fmt::Result {
            match self {
                Step::Create(q) => write!(f, "create {q}"), Step::Delete(q) => write!(f, "delete {q}"), Step::Truncate(q, p) => write!(f, "truncate {q} ..={p}"),
                Step::Align(k) => write!(f, "fill until {k} bytes are left in the block"),
                Step::Append(q, v) if v.len() > 4 && v.iter().all(|x| *x == v[0]) => write!(f, "append {q} {} records of {} bytes", v.len(), v[0]),
                Step::Append(q, v) => write!(f, "append {q} {v:?}"),
            }
        }
    }

    #[derive(Clone, Debug, PartialEq)]
    struct Rec { q: &'static str, pos: u64, payload: Vec<u8>, call: usize, idx_in_batch: usize, batch_len: usize }

    #[derive(Clone, Debug)]
    struct Frame { file: usize, off: usize, len: usize, ty: u8, entry: usize }

    struct Built {
        dir: tempfile::TempDir,
        retained: Vec<Rec>,                    // final state, in queue order
        ever: Vec<Rec>,                        // every record ever appended
        truncs: Vec<(usize, &'static str, u64)>, // (call, queue, up to)
        call_entries: Vec<(usize, usize)>,     // per call: range of WAL entries it wrote
        queues: Vec<&'static str>,             // existing queues at the end
        next: BTreeMap<&'static str, u64>,
        frames: Vec<Frame>,
        files: Vec<PathBuf>,
        c15: Vec<String>,                      // calls whose reported wal_bytes_written differs from the growth of the data in the files
    }

    fn payload(call: usize, idx: usize, n: usize) -> Vec<u8> {
        let mut x: u32 = (call as u32).wrapping_mul(2654435761).wrapping_add(idx as u32 * 40503 + 17);
        (0..n).map(|_| { x = x.wrapping_mul(1664525).wrapping_add(1013904223); (x >> 24) as u8 | 0x80 }).collect() // high bit set: never looks like a frame type / small length
    }
    fn wal_files(dir: &Path) -> Vec<PathBuf> {
        let mut v: Vec<PathBuf> = std::fs::read_dir(dir).unwrap().map(|e| e.unwrap().path())
            .filter(|p| p.file_name().unwrap().to_str().unwrap().starts_with("wal-") && p.is_file()).collect();
        v.sort();
        v
    }
    /// independent walk over the frame headers of all files (checksum u32, length u16, type u8); stops at the first all-zero header
    fn walk(files: &[PathBuf]) -> (Vec<Frame>, usize, usize) {
        let mut frames = Vec::new();
        let mut entry = 0usize;
        let mut started = false;
        for (fi, f) in files.iter().enumerate() {
            let bytes = std::fs::read(f).unwrap();
            let zero = |p: usize| p + HDR > bytes.len() || bytes[p..p + HDR].iter().all(|b| *b == 0);
            let mut pos = 0usize;
            loop {
                if pos >= bytes.len() { break; }
                let rem = BLOCK - pos % BLOCK;
                if rem < HDR { if fi + 1 == files.len() && zero(pos + rem) { return (frames, fi, pos); } pos += rem; continue; }
                if zero(pos) { return (frames, fi, pos); }
                let len = u16::from_le_bytes([bytes[pos + 4], bytes[pos + 5]]) as usize;
                let ty = bytes[pos + 6];
                if ty == 1 || ty == 2 { if started { entry += 1; } started = true; }
                frames.push(Frame { file: fi, off: pos, len, ty, entry });
                pos += HDR + len;
            }
        }
        (frames, files.len().saturating_sub(1), usize::MAX)
    }
    fn left_in_block(dir: &Path) -> usize {
        let (_, _, off) = walk(&wal_files(dir));
        if off == usize::MAX { BLOCK } else { BLOCK - off % BLOCK }
    }
    /// absolute end of the data: (files before the last one) * file length + offset in the last file (no file is ever removed in these layouts)
    fn cursor(dir: &Path) -> u64 {
        let files = wal_files(dir);
        let flen = std::fs::metadata(&files[0]).unwrap().len();
        let (_, fi, off) = walk(&files);
        if off == usize::MAX { files.len() as u64 * flen } else { fi as u64 * flen + off as u64 }
    }
    fn n_entries(dir: &Path) -> usize { walk(&wal_files(dir)).0.last().map(|f| f.entry + 1).unwrap_or(0) }

    fn build(steps: &[Step]) -> Built {
        let dir = tempfile::tempdir().unwrap();
        let mut log = MultiRecordLog::open(dir.path()).unwrap();
        let mut qs: BTreeMap<&'static str, Vec<Rec>> = BTreeMap::new();
        let mut next: BTreeMap<&'static str, u64> = BTreeMap::new();
        let (mut ever, mut truncs, mut call_entries) = (Vec::new(), Vec::new(), Vec::new());
        let mut call = 0usize;
        let mut c15: Vec<String> = Vec::new();
        let mut append = |log: &mut MultiRecordLog, qs: &mut BTreeMap<&'static str, Vec<Rec>>, next: &mut BTreeMap<&'static str, u64>, ever: &mut Vec<Rec>, call: usize, q: &'static str, sizes: &[usize]| {
            let pls: Vec<Vec<u8>> = sizes.iter().enumerate().map(|(i, n)| payload(call, i, *n)).collect();
            let p0 = next[q];
            let out = log.append_records(q, None, pls.iter().map(|p| p.as_slice())).unwrap();
            assert_eq!(out.last_position, Some(p0 + sizes.len() as u64 - 1), "harness: unexpected position");
            for (i, pl) in pls.into_iter().enumerate() {
                let r = Rec { q, pos: p0 + i as u64, payload: pl, call, idx_in_batch: i, batch_len: sizes.len() };
                qs.get_mut(q).unwrap().push(r.clone()); ever.push(r);
            }
            next.insert(q, p0 + sizes.len() as u64);
            out.wal_bytes_written
        };
        for s in steps {
            let e0 = n_entries(dir.path());
            let c0 = cursor(dir.path());
            let reported: u64 = match s {
                Step::Create(q) => { let o = log.create_queue(q).unwrap(); qs.insert(q, Vec::new()); next.insert(q, 0); o.wal_bytes_written }
                Step::Delete(q) => { let o = log.delete_queue(q).unwrap(); qs.remove(q); next.remove(q); o.wal_bytes_written }
                Step::Append(q, sizes) => append(&mut log, &mut qs, &mut next, &mut ever, call, q, sizes),
                Step::Truncate(q, upto) => {
                    let o = log.truncate(q, ..=*upto).unwrap();
                    truncs.push((call, *q, *upto));
                    let v = qs.get_mut(q).unwrap();
                    v.retain(|r| r.pos > *upto);
                    if *upto + 1 > next[q] { next.insert(q, *upto + 1); }
                    o.wal_bytes_written
                }
                Step::Align(k) => {
                    // filler records to queue "f" (entry = 7 + 11 + 1 + 12 + payload bytes when it fits the block) until exactly k bytes are left
                    let mut guard = 0;
                    loop {
                        guard += 1; assert!(guard < 50, "harness: alignment does not converge");
                        let left = left_in_block(dir.path());
                        if left == *k || (*k == 0 && left == BLOCK) { break; }
                        let e1 = n_entries(dir.path());
                        let c1 = cursor(dir.path());
                        let w = if left >= 31 + *k { append(&mut log, &mut qs, &mut next, &mut ever, call, "f", &[left - *k - 31]) }
                                else { append(&mut log, &mut qs, &mut next, &mut ever, call, "f", &[40]) };
                        let grown = cursor(dir.path()) - c1;
                        if grown != w { c15.push(format!("filler append with {left} bytes left in the block: wal_bytes_written {w}, the data in the WAL files grew by {grown} bytes")); }
                        call_entries.push((e1, n_entries(dir.path())));
                        call += 1;
                    }
                    continue;
                }
            };
            let grown = cursor(dir.path()) - c0;
            if grown != reported { c15.push(format!("{s:?} (write cursor {} bytes into its block): wal_bytes_written {reported}, the data in the WAL files grew by {grown} bytes", c0 as usize % BLOCK)); }
            call_entries.push((e0, n_entries(dir.path())));
            call += 1;
        }
        drop(log);
        let files = wal_files(dir.path());
        let (frames, _, _) = walk(&files);
        let retained: Vec<Rec> = qs.values().flat_map(|v| v.iter().cloned()).collect();
        let queues: Vec<&'static str> = qs.keys().copied().collect();
        Built { dir, retained, ever, truncs, call_entries, queues, next, frames, files, c15 }
    }

    #[derive(Clone, Debug)]
    enum Dmg { None, Payload(usize), Crc(usize), Type(u8), Len(u16), ZeroBlock, Torn(usize), CopyOf(u8, usize, usize) } // CopyOf(type, file, offset of the source): overwritten by a copy of another frame of the same length

    fn damages(f: &Frame, first_in_block: bool, all: &[Frame]) -> Vec<Dmg> {
        let mut v = Vec::new();
        if f.len > 0 { let mut is = vec![0, f.len / 2, f.len - 1]; is.dedup(); for i in is { v.push(Dmg::Payload(i)); } }
        v.push(Dmg::Crc(0)); v.push(Dmg::Crc(3));
        for t in [0u8, 1, 2, 3, 4, 5, 255] { if t != f.ty { v.push(Dmg::Type(t)); } }
        let fit = (BLOCK - f.off % BLOCK - HDR) as u16;
        let mut ls = vec![f.len as u16 + 1, (f.len as u16).saturating_sub(1), 0, 65535, fit, fit.saturating_add(1)];
        ls.sort(); ls.dedup();
        for l in ls { if l as usize != f.len { v.push(Dmg::Len(l)); } }
        if first_in_block { v.push(Dmg::ZeroBlock); }
        let mut ts = vec![0, 3, 7, 7 + f.len / 2]; ts.dedup();
        for t in ts { v.push(Dmg::Torn(t)); }
        for g in all.iter().filter(|g| g.len == f.len && (g.file, g.off) != (f.file, f.off)).take(2) { v.push(Dmg::CopyOf(g.ty, g.file, g.off)); }
        v
    }

    fn apply(b: &Built, to: &Path, f: &Frame, d: &Dmg) {
        for p in &b.files { std::fs::copy(p, to.join(p.file_name().unwrap())).unwrap(); }
        let path = to.join(b.files[f.file].file_name().unwrap());
        let mut bytes = std::fs::read(&path).unwrap();
        match *d {
            Dmg::None => {}
            Dmg::Payload(i) => bytes[f.off + HDR + i] ^= 0x55,
            Dmg::Crc(j) => bytes[f.off + j] ^= 0x01,
            Dmg::Type(t) => bytes[f.off + 6] = t,
            Dmg::Len(l) => { let le = l.to_le_bytes(); bytes[f.off + 4] = le[0]; bytes[f.off + 5] = le[1]; }
            Dmg::CopyOf(_, gf, goff) => {
                let src = std::fs::read(&b.files[gf]).unwrap();
                let n = HDR + f.len;
                bytes[f.off..f.off + n].copy_from_slice(&src[goff..goff + n]);
            }
            Dmg::ZeroBlock => { let s = f.off - f.off % BLOCK; for x in &mut bytes[s..s + BLOCK] { *x = 0; } }
            Dmg::Torn(t) => {
                let s = (f.off + t).min(bytes.len());
                for x in &mut bytes[s..] { *x = 0; }
                for later in &b.files[f.file + 1..] {
                    let lp = to.join(later.file_name().unwrap());
                    let n = std::fs::metadata(&lp).unwrap().len() as usize;
                    std::fs::write(&lp, vec![0u8; n]).unwrap();
                }
            }
        }
        std::fs::write(&path, bytes).unwrap();
    }

    fn judge(b: &Built, f: &Frame, d: &Dmg, res: std::thread::Result<Result<Vec<(String, Vec<(u64, Vec<u8>)>, Option<u64>)>, String>>) -> Option<(Vec<&'static str>, String)> {
        let confined = matches!(d, Dmg::Payload(_) | Dmg::Crc(_));
        let got = match res {
            Err(p) => {
                let msg = p.downcast_ref::<String>().cloned().or_else(|| p.downcast_ref::<&str>().map(|s| s.to_string())).unwrap_or_default();
                return Some((vec!["C10"], format!("open (or a read accessor) panics: {msg}")));
            }
            Ok(Err(e)) => {
                if confined { return Some((vec!["C09"], format!("open fails ({e}) although the damage is confined to the payload / checksum bytes of one frame"))); }
                if matches!(d, Dmg::None) { return Some((vec!["C07", "C01"], format!("open of the undamaged log fails: {e}"))); }
                return None;
            }
            Ok(Ok(g)) => g,
        };
        let mut found: Vec<(Vec<&'static str>, String)> = Vec::new();
        // C08: nothing that was not appended
        for (q, recs, _) in &got {
            for w in recs.windows(2) { if w[1].0 <= w[0].0 { found.push((vec!["C08"], format!("queue {q}: recovered positions not strictly increasing: {} then {}", w[0].0, w[1].0)));  } }
            for (pos, pl) in recs {
                if !b.ever.iter().any(|r| r.q == q && r.pos == *pos && r.payload == *pl) {
                    let what = if b.ever.iter().any(|r| r.q == q && r.pos == *pos) { "with bytes that differ from what was appended there" } else { "although nothing was ever appended there" };
                    found.push((vec!["C08"], format!("queue {q}: recovered a record at position {pos} ({} bytes) {what}", pl.len()))); 
                }
            }
        }
        let has = |r: &Rec| got.iter().any(|(q, recs, _)| q == r.q && recs.iter().any(|x| x.0 == r.pos && x.1 == r.payload));
        // C12: batches whole, absent, or minus a head removed by a later truncate
        let mut calls: Vec<usize> = b.ever.iter().filter(|r| r.batch_len > 1).map(|r| r.call).collect();
        calls.dedup();
        for c in calls {
            let batch: Vec<&Rec> = b.ever.iter().filter(|r| r.call == c).collect();
            let present: Vec<bool> = batch.iter().map(|r| has(r)).collect();
            let first = present.iter().position(|p| *p);
            if let Some(j) = first {
                if present[j..].iter().any(|p| !*p) {
                    found.push((vec!["C12"], format!("batch of call {c} (queue {}, positions {}..={}) recovered with a hole or a missing tail: {}", batch[0].q, batch[0].pos, batch.last().unwrap().pos, fmt_present(&present)))); 
                }
                if j > 0 && !b.truncs.iter().any(|(tc, tq, upto)| *tc > c && *tq == batch[0].q && *upto >= batch[j - 1].pos) {
                    found.push((vec!["C12"], format!("batch of call {c} (queue {}) recovered without its first {j} record(s) although no truncate removed them: {}", batch[0].q, fmt_present(&present)))); 
                }
            }
        }
        // C09: confined damage costs only the entry it hits
        if confined {
            for r in &b.retained {
                let (e0, e1) = b.call_entries[r.call];
                if (e0..e1).contains(&f.entry) { continue; }
                if !has(r) { found.push((vec!["C09"], format!("record {}@{} ({} bytes, written by call {}) is lost although the damaged frame belongs to another entry (entry {})", r.q, r.pos, r.payload.len(), r.call, f.entry)));  }
            }
        }
        // C07 / C01: no damage
        if matches!(d, Dmg::None) {
            let mut exp: Vec<(String, Vec<(u64, Vec<u8>)>, Option<u64>)> = b.queues.iter().map(|q| (q.to_string(),
                b.retained.iter().filter(|r| r.q == *q).map(|r| (r.pos, r.payload.clone())).collect(), b.next[q].checked_sub(1))).collect();
            exp.sort();
            if exp != got {
                let s = |v: &Vec<(String, Vec<(u64, Vec<u8>)>, Option<u64>)>| v.iter().map(|x| format!("{}: {:?} last {:?}", x.0, x.1.iter().map(|r| (r.0, r.1.len())).collect::<Vec<_>>(), x.2)).collect::<Vec<_>>().join("; ");
                found.push((vec!["C07", "C01"], format!("undamaged log reopened: [{}], written: [{}]", s(&got), s(&exp)))); 
            }
        }
        if found.is_empty() { return None; }
        let mut tags: Vec<&'static str> = found.iter().flat_map(|f| f.0.iter().copied()).collect();
        tags.sort(); tags.dedup();
        let mut details: Vec<String> = Vec::new();
        for f in &found { if details.len() < 3 && !details.iter().any(|d| d[..20.min(d.len())] == f.1[..20.min(f.1.len())]) { details.push(f.1.clone()); } }
        Some((tags, details.join(" ;; ")))
    }

    fn fmt_present(p: &[bool]) -> String {
        let runs: Vec<String> = p.chunk_by(|a, b| a == b).map(|c| format!("{} {}", c.len(), if c[0] { "recovered" } else { "missing" })).collect();
        format!("records of the batch in order: {}", runs.join(", "))
    }

    fn open_and_observe(dir: PathBuf) -> std::thread::Result<Result<Vec<(String, Vec<(u64, Vec<u8>)>, Option<u64>)>, String>> {
        std::panic::catch_unwind(move || {
            let log = match MultiRecordLog::open(&dir) { Ok(l) => l, Err(e) => return Err(format!("{e:?}")) };
            let mut names: Vec<String> = log.list_queues().map(|s| s.to_string()).collect();
            names.sort();
            let mut v = Vec::new();
            for n in names {
                let recs: Vec<(u64, Vec<u8>)> = log.range(&n, ..).unwrap().map(|r| (r.position, r.payload.to_vec())).collect();
                let _ = log.last_record(&n).unwrap();
                v.push((n.clone(), recs, log.last_position(&n).unwrap()));
            }
            let _ = log.summary(); let _ = log.resource_usage();
            Ok(v)
        })
    }

    /// C10 only: damage at the level of whole files (not in-place): a file removed, cut to 0 / 100 / one block + 100 bytes, extended by two blocks of 0xFF,
    /// duplicated under the next free number, an empty file with the next free number, a sub-directory with a WAL name; open must answer (Ok or Err), no panic
    fn file_level(b: &Built, name: &str, steps: &[Step], fails: &std::sync::Mutex<Vec<String>>, count: &std::sync::atomic::AtomicU64) {
        let n = b.files.len();
        let last_num: u64 = b.files[n - 1].file_name().unwrap().to_str().unwrap()[4..].parse().unwrap();
        let mut cases: Vec<(String, Box<dyn Fn(&Path)>)> = Vec::new();
        for k in 0..n {
            let fname = b.files[k].file_name().unwrap().to_os_string();
            let f1 = fname.clone(); cases.push((format!("file {k} removed"), Box::new(move |d: &Path| { std::fs::remove_file(d.join(&f1)).unwrap(); })));
            for cut in [0u64, 100, BLOCK as u64 + 100] {
                let f2 = fname.clone(); cases.push((format!("file {k} cut to {cut} bytes"), Box::new(move |d: &Path| { std::fs::OpenOptions::new().write(true).open(d.join(&f2)).unwrap().set_len(cut).unwrap(); })));
            }
            let f3 = fname.clone(); cases.push((format!("file {k} extended by two blocks of 0xFF"), Box::new(move |d: &Path| {
                use std::io::Write; let mut f = std::fs::OpenOptions::new().append(true).open(d.join(&f3)).unwrap(); f.write_all(&vec![0xFFu8; 2 * BLOCK]).unwrap(); })));
            let f4 = fname.clone(); cases.push((format!("file {k} duplicated as file {}", last_num + 1), Box::new(move |d: &Path| { std::fs::copy(d.join(&f4), d.join(format!("wal-{:020}", last_num + 1))).unwrap(); })));
        }
        cases.push((format!("empty file {}", last_num + 1), Box::new(move |d: &Path| { std::fs::write(d.join(format!("wal-{:020}", last_num + 1)), b"").unwrap(); })));
        cases.push((format!("sub-directory named like file {}", last_num + 2), Box::new(move |d: &Path| { std::fs::create_dir(d.join(format!("wal-{:020}", last_num + 2))).unwrap(); })));
        for (what, dmg) in cases {
            let t = tempfile::tempdir().unwrap();
            for p in &b.files { std::fs::copy(p, t.path().join(p.file_name().unwrap())).unwrap(); }
            dmg(t.path());
            count.fetch_add(1, std::sync::atomic::Ordering::Relaxed);
            if let Err(p) = open_and_observe(t.path().to_path_buf()) {
                let msg = p.downcast_ref::<String>().cloned().or_else(|| p.downcast_ref::<&str>().map(|s| s.to_string())).unwrap_or_default();
                fails.lock().unwrap().push(format!("E-HIST-FAIL tags=C10 run=E-dmg layout={name} steps={steps:?} damage=File({what}) :: open (or a read accessor) panics: {msg}"));
                return;
            }
        }
    }

    fn scenarios() -> Vec<(String, Vec<Step>)> {
        use Step::*;
        let pre = || vec![Create("f"), Create("a"), Create("b")];
        let mut v: Vec<(String, Vec<Step>)> = Vec::new();
        for k in [0usize, 1, 6, 7, 8, 9, 40] {
            let mut s = pre(); s.extend([Align(k + 31 + 100), Append("a", vec![100]), Append("b", vec![10]), Append("a", vec![10])]);
            v.push((format!("ends-with-{k}-left"), s));
            let mut s = pre(); s.extend([Align(k), Append("a", vec![100]), Append("b", vec![10]), Append("a", vec![10])]);
            v.push((format!("starts-with-{k}-left"), s));
            let mut s = pre(); s.extend([Append("a", vec![7]), Align(k), Append("a", vec![70_000]), Append("b", vec![10]), Append("a", vec![10])]);
            v.push((format!("three-frames-starting-with-{k}-left"), s));
            let mut s = pre(); s.extend([Append("a", vec![9]), Align(k), Append("a", vec![20_000, 20_000, 20_000, 0]), Append("b", vec![10]), Truncate("a", 1), Append("a", vec![5, 5])]);
            v.push((format!("batch-starting-with-{k}-left"), s));
        }
        for j in [0usize, 1, 2] {
            // frame 1 of the batch entry carries 32761 bytes = 12 (entry header, 1-char name) + (12 + 10000) + (12 + s2): record boundary at the frame boundary for j == 1
            let mut s = pre(); s.extend([Align(0), Append("a", vec![10_000, 22_724 + j, 5_000, 0]), Append("b", vec![10])]);
            v.push((format!("batch-record-boundary-{}-frame-boundary", ["before", "on", "after"][j]), s));
        }
        // a batch of 600 records of 181 bytes each on the wire (12 + 169): a Middle frame carries 32761 = 181 * 181 bytes, i.e. whole records' worth --
        // the entry minus one Middle frame still parses as a batch, so only the frame sequence protects its atomicity
        let mut s = pre(); s.extend([Append("a", vec![7]), Align(0), Append("a", vec![169; 600]), Append("b", vec![10]), Append("a", vec![10])]);
        v.push(("batch-of-600-whole-records-per-middle-frame".to_string(), s));
        for (k, sz, what) in [(1000usize, 33_730usize, "two"), (1000, 66_491, "three"), (7, 32_737, "empty-first-plus-one"), (0, 32_737, "one-full")] {
            // a multi-frame entry whose LAST frame ends exactly at a block end: entry = 24 + sz bytes, first frame takes k - 7 of them, the rest is a multiple of 32761
            let mut s = pre(); s.extend([Append("a", vec![8]), Align(k), Append("a", vec![sz]), Append("b", vec![10]), Append("a", vec![10])]);
            v.push((format!("{what}-frames-ending-at-the-block-end"), s));
        }
        // one batch larger than a WAL file (6 records of 40 000 bytes: 8 frames over two files): still ONE entry, all or nothing
        let mut s = pre(); s.extend([Append("a", vec![5]), Append("a", vec![40_000; 6]), Append("b", vec![10]), Append("a", vec![10])]);
        v.push(("batch-larger-than-a-file".to_string(), s));
        let mut s = pre(); s.extend([Append("a", vec![10, 20]), Delete("a"), Create("a"), Append("a", vec![30]), Append("b", vec![10]), Append("a", vec![11])]);
        v.push(("delete-recreate".to_string(), s));
        for k in [0usize, 6, 7, 500] {
            let mut s = pre(); s.extend([Append("a", vec![60_000]), Append("b", vec![30_000]), Align(k), Append("a", vec![70_000]), Append("b", vec![10]), Append("a", vec![12])]);
            v.push((format!("file-boundary-{k}"), s));
        }
        let mut s = pre(); s.extend([Append("a", vec![10]), Append("a", vec![10]), Append("a", vec![10]), Truncate("a", 1), Append("a", vec![10]), Truncate("b", 5), Append("b", vec![3]), Append("a", vec![0])]);
        v.push(("truncations".to_string(), s));
        v
    }

    /// E-dmg: every single-site damage of every frame of every layout
    #[test]
    fn e_dmg() {
        let scen = scenarios();
        let fails = std::sync::Mutex::new(Vec::<String>::new());
        let count = std::sync::atomic::AtomicU64::new(0);
        let nthreads = std::thread::available_parallelism().map(|n| n.get()).unwrap_or(4);
        let next_scen = std::sync::atomic::AtomicUsize::new(0);
        std::thread::scope(|sc| {
            for _ in 0..nthreads {
                sc.spawn(|| loop {
                    let i = next_scen.fetch_add(1, std::sync::atomic::Ordering::SeqCst);
                    if i >= scen.len() { break; }
                    let (name, steps) = &scen[i];
                    let b = build(steps);
                    let total_entries: usize = b.call_entries.iter().map(|c| c.1 - c.0).sum();
                    assert_eq!(b.frames.last().map(|f| f.entry + 1).unwrap_or(0), total_entries, "harness: frame walk and per-call entry counts disagree in {name}");
                    for (i, c) in b.c15.iter().enumerate() {
                        if i < 2 { fails.lock().unwrap().push(format!("E-HIST-FAIL tags=C15 run=E-dmg layout={name} steps={steps:?} damage=None :: {c}")); }
                    }
                    file_level(&b, name, steps, &fails, &count);
                    let mut per_tag: BTreeMap<String, usize> = BTreeMap::new();
                    let mut cases: Vec<(Frame, Dmg)> = vec![(b.frames[0].clone(), Dmg::None)];
                    for (fi, f) in b.frames.iter().enumerate() {
                        let first_in_block = fi == 0 || b.frames[fi - 1].file != f.file || b.frames[fi - 1].off / BLOCK != f.off / BLOCK;
                        for d in damages(f, first_in_block, &b.frames) { cases.push((f.clone(), d)); }
                    }
                    for (f, d) in cases {
                        let t = tempfile::tempdir().unwrap();
                        apply(&b, t.path(), &f, &d);
                        count.fetch_add(1, std::sync::atomic::Ordering::Relaxed);
                        let res = open_and_observe(t.path().to_path_buf());
                        if let Some((tags, detail)) = judge(&b, &f, &d, res) {
                            let key = tags.join(",");
                            // at most 2 reports per layout, tag set and KIND of damage (so that one kind cannot crowd out another)
                            let kind = format!("{d:?}"); let kind = kind.split('(').next().unwrap().to_string();
                            let n = per_tag.entry(format!("{key}|{kind}")).or_default();
                            *n += 1;
                            if *n <= 2 {
                                fails.lock().unwrap().push(format!("E-HIST-FAIL tags={key} run=E-dmg layout={name} steps={steps:?} damage={d:?} frame=(file {} offset {} len {} type {} entry {}) :: {detail}", f.file, f.off, f.len, f.ty, f.entry));
                            }
                        }
                    }
                });
            }
        });
        let fails = fails.into_inner().unwrap();
        eprintln!("E-dmg: {} layouts, {} damaged (or intact) images opened, {} failing (at most 2 reported per layout, tag set and kind of damage)", scen.len(), count.into_inner(), fails.len());
        for f in &fails { eprintln!("{f}"); }
        assert!(fails.is_empty(), "E-dmg: {} failing cases, first: {}", fails.len(), fails[0]);
    }
}
