"""Generator: /repo/src -> one Verus file.

extract (rustlex) -> rewrite (closed rule list R1..R13, DESIGN.md 2.2) -> splice contracts
(/verif/contracts/*.vspec) -> build/gen_all.rs + line map.

Nothing executable is added: the splicer inserts only ghost text.
"""
import os, re, json, hashlib
from dataclasses import dataclass, field
from typing import List, Dict, Optional, Tuple

import rustlex
from rustlex import lex, sig, match_close, parse_items, Item, type_base
from contracts import Contract, Clause, load_dir, ContractError


class ToolCondition(Exception):
    """Anything that is the machinery's problem, not the code's: exit 2, never an alarm."""


@dataclass
class Seg:
    text: str
    origin: str          # 'src' | 'clause' | 'proof' | 'gen' | 'spec'
    src_file: str = ''
    src_line: int = 0    # line of first char (for 'src')
    oid: str = ''
    tags: Tuple[str, ...] = ()
    ckind: str = ''
    addr: str = ''


@dataclass
class FnInfo:
    addr: str
    status: str
    src_file: str
    src_line: int
    tags: List[str]
    bounded: Optional[str] = None
    has_contract: bool = False
    gen_first: int = 0
    gen_last: int = 0
    verus_name: str = ''
    clause_ids: List[str] = field(default_factory=list)


class Rules:
    def __init__(self):
        self.hits: Dict[str, int] = {}

    def hit(self, r, n=1):
        if n:
            self.hits[r] = self.hits.get(r, 0) + n


def keep_newlines(old: str, new: str) -> str:
    d = old.count('\n') - new.count('\n')
    if d < 0:
        raise ToolCondition('rewrite adds lines: %r -> %r' % (old[:40], new[:40]))
    return new + '\n' * d


TRACING_MACROS = {'info', 'warn', 'debug', 'error', 'trace'}
DROP_DERIVES = {'Error', 'Serialize', 'Deserialize'}


class Generator:
    def __init__(self, repo: str, verif: str):
        self.repo = repo
        self.src_root = os.path.join(repo, 'src')
        self.verif = verif
        self.contracts: Dict[str, Contract] = load_dir(os.path.join(verif, 'contracts'))
        self.used_contracts = set()
        self.rules = Rules()
        self.segs: List[Seg] = []
        self.fns: List[FnInfo] = []
        self.sha: Dict[str, str] = {}
        self.from_impls: List[str] = []
        self.pending_after = []
        self.canary_fns = set()
        self.syntactic = []
        self.lenient = False        # drop proof hints whose anchor is lost instead of giving up (check.py, second attempt)
        self.dropped_hints = {}
        self.field_types: Dict[str, Dict[str, str]] = {}
        # struct name -> ghost field names (`@attr ghostfield:<name>: <spec type>`), known before any fn text is rewritten
        self.ghost_fields: Dict[str, List[str]] = {}
        for addr, c in self.contracts.items():
            gf = [a[len('ghostfield:'):].split(':', 1)[0].strip() for a in c.attrs if a.startswith('ghostfield:')]
            if gf:
                self.ghost_fields[addr.split('::')[-1]] = gf

    # ------------------------------------------------------------------ emit helpers
    def emit(self, text, origin='gen', **kw):
        if text:
            self.segs.append(Seg(text=text, origin=origin, **kw))

    # ------------------------------------------------------------------ driver
    def generate(self):
        self.emit(PRELUDE)
        for name in sorted(os.listdir(os.path.join(self.verif, 'spec'))):
            if name.endswith('.rs'):
                p = os.path.join(self.verif, 'spec', name)
                mod = name[:-3]
                self.emit('pub mod %s {\n' % mod)
                self.emit(open(p).read(), origin='spec', src_file='spec/' + name, src_line=1)
                self.emit('\n} // mod %s\n' % mod)
        self.module('lib.rs', top=True)
        self.emit('\nfn main() {}\n')
        # call-site restrictions (@onlycaller): the named call may occur only in the function carrying the directive
        # (several items may carry the directive with the same id: then the call may occur in exactly those functions)
        groups = {}
        for addr, c in self.contracts.items():
            for (call_re, oid, tags) in c.callsites:
                g_ = groups.setdefault(oid, dict(call_re=call_re, tags=tags, allowed=[]))
                if g_['call_re'] != call_re:
                    raise ContractError('@onlycaller %s: different regexes under one id' % oid)
                g_['allowed'].append(addr)
        for oid, g_ in groups.items():
            call_re, tags, allowed = g_['call_re'], g_['tags'], g_['allowed']
            offenders = []
            for f in self.fns:
                if not hasattr(f, '_seg_range') or f.addr in allowed or '#canary' in f.addr or '#callsig' in f.addr:
                    continue
                a0, b0 = f._seg_range
                srctext = ''.join(sg.text for sg in self.segs[a0:b0] if sg.origin == 'src')
                if re.search(call_re, srctext):
                    offenders.append(f.addr)
            here = next((f for f in self.fns if f.addr == allowed[0]), None)
            self.syntactic.append(dict(oid=oid, tags=tags, addr=(offenders[0] if offenders else allowed[0]), ok=not offenders,
                                       why=('/%s/ is also called from %s' % (call_re, ', '.join(offenders))) if offenders else '',
                                       src_file=here.src_file if here else '', src_line=here.src_line if here else 0))
        # type-level structural obligation (@onlyholders): only the listed structs may have a field whose type matches the regex
        for caddr, c in self.contracts.items():
            for (ty_re, allowed_structs, oid, tags) in getattr(c, 'onlyholders', []):
                offenders = []
                for nm, (stxt, srel, sline) in getattr(self, 'struct_texts', {}).items():
                    if nm in allowed_structs:
                        continue
                    m0 = re.search(r'\{(.*)\}', stxt, re.S) or re.search(r'\((.*)\)', stxt, re.S)
                    if m0 and re.search(ty_re, m0.group(1)):
                        offenders.append((nm, srel, sline))
                self.syntactic.append(dict(oid=oid, tags=tags, addr=(offenders[0][1] + '::' + offenders[0][0]) if offenders else caddr, ok=not offenders,
                                           why=('struct %s holds a field of type /%s/ (only %s may)' % (', '.join(o[0] for o in offenders), ty_re, ', '.join(allowed_structs))) if offenders else '',
                                           src_file=offenders[0][1] if offenders else '', src_line=offenders[0][2] if offenders else 0))
        unused = set(self.contracts) - self.used_contracts
        # A contract whose item is gone is moot IF it only says what that item did (requires/ensures/proof hints): whoever took its
        # work over is judged by its own contract (or, having none, makes its callers' failures 'undecided').  A missing item that carries
        # crate-wide structural obligations, ghost definitions or type-level attributes is still a lost anchor.
        hard = []
        self.removed_items = []
        for a in sorted(unused):
            c = self.contracts[a]
            structural = bool(c.callsites or c.holds or c.mustcall or c.contains or getattr(c, 'nohandle', None) or getattr(c, 'order', None))
            if structural or c.ghost.strip() or c.after.strip() or c.attrs or '@module' in a or '::impl' in a or a.endswith('>') or not re.search(r'::[a-z_][A-Za-z0-9_]*$', a):
                hard.append(a)
            else:
                self.removed_items.append(a)
        if hard:
            raise ToolCondition('lost anchor: contract(s) name items that no longer exist: %s' % hard)
        return self.finish()

    def module(self, rel: str, top=False):
        path = os.path.join(self.src_root, rel)
        src = open(path).read()
        self.sha[rel] = hashlib.sha256(src.encode()).hexdigest()
        try:
            items = parse_items(src)
        except (rustlex.LexError, AssertionError, IndexError, ValueError) as e:
            raise ToolCondition('cannot parse %s: %s' % (rel, e))
        line_of = LineIndex(src)
        mods = []
        if not top:
            self.emit('#[allow(unused_imports)] use vstd::prelude::*;\n')
        self.emit('verus! {\n')
        if not top:
            self.emit('#[allow(unused_imports)] use crate::vshim;\n')
        self.emit('#[allow(unused_imports)] use crate::vspec::*;\n')
        mc = self.contract_for(rel + '::@module')
        if not top and not (mc and 'nobroadcast' in mc.attrs):
            extra_b = [a[len('broadcast:'):] for a in (mc.attrs if mc else []) if a.startswith('broadcast:')]
            self.emit('broadcast use {%s};\n' % ', '.join(
                ['crate::vfrom::group_from', 'crate::std_specs::axiom_into_iter_seq_slice'] + extra_b))
        if mc and mc.ghost:
            self.emit(mc.ghost, 'spec', src_file=mc.src)
        for it in items:
            if any(re.match(r'#\[cfg\(test\)\]', a) for a in it.attrs):
                self.rules.hit('R12')
                continue
            if it.kind == 'mod' and not it.has_body:
                mods.append(it.name)
                continue
            self.item(rel, src, it, line_of)
        self.emit('\n} // verus!\n')
        for m in mods:
            d = os.path.dirname(rel)
            base = os.path.join(d, m) if (rel.endswith('mod.rs') or rel == 'lib.rs') else os.path.join(rel[:-3], m)
            cand = [base + '.rs', os.path.join(base, 'mod.rs')]
            for c in cand:
                if os.path.exists(os.path.join(self.src_root, c)):
                    self.emit('\npub mod %s {\n' % m)
                    self.module(c)
                    self.emit('\n} // mod %s\n' % m)
                    break
            else:
                raise ToolCondition('module file for %s not found (from %s)' % (m, rel))

    # ------------------------------------------------------------------ items
    def contract_for(self, addr) -> Optional[Contract]:
        c = self.contracts.get(addr)
        if c:
            self.used_contracts.add(addr)
        return c

    def item(self, rel, src, it: Item, line_of, parent: Optional[Item] = None):
        k = it.kind
        if k == 'use':
            self.use_item(rel, src, it, line_of)
        elif k in ('struct', 'enum', 'union'):
            self.adt_item(rel, src, it, line_of)
        elif k in ('const', 'static', 'type'):
            c = self.contract_for('%s::%s' % (rel, it.name))
            if c and c.status == 'omitted':
                return
            txt = self.pubify_head(src[it.start:it.end], it, src)
            pre = ''
            if c:
                pre = ''.join(a + '\n' for a in c.attrs if a.startswith('#'))
                if c.status == 'external':
                    pre += '#[verifier::external]\n'
            self.emit('\n' + pre + txt + '\n', 'src', src_file=rel, src_line=line_of(it.start))
        elif k == 'fn':
            self.fn_item(rel, src, it, line_of, None)
        elif k in ('impl', 'trait'):
            self.block_item(rel, src, it, line_of)
        elif k == 'mod':
            # inline module (only cfg(test) ones exist today)
            raise ToolCondition('inline module %s in %s not supported' % (it.name, rel))
        else:
            raise ToolCondition('item kind %s in %s not supported' % (k, rel))

    def use_item(self, rel, src, it, line_of):
        txt = src[it.start:it.end]
        flat = re.sub(r'\s+', ' ', txt)
        if re.search(r'\buse (thiserror|serde)::', flat):
            self.rules.hit('R2'); return
        if re.search(r'\buse tracing::', flat):
            self.rules.hit('R3'); return
        if re.search(r'\buse bytes::Buf;', flat):
            self.rules.hit('R10')
            txt = keep_newlines(txt, 'use crate::vshim::Buf;')
        txt = re.sub(r'^(\s*)pub\s*\([^)]*\)\s*use\b', r'\1pub use', txt)
        self.emit('\n' + txt, 'src', src_file=rel, src_line=line_of(it.start))

    def filter_attrs(self, attrs: List[str]) -> List[str]:
        out = []
        for a in attrs:
            flat = re.sub(r'\s+', ' ', a)
            m = re.match(r'#\[derive\((.*)\)\]$', flat)
            if m:
                names = [x.strip() for x in m.group(1).split(',') if x.strip()]
                keep = [x for x in names if x not in DROP_DERIVES]
                if len(keep) != len(names):
                    self.rules.hit('R2')
                if keep:
                    out.append('#[derive(%s)]' % ', '.join(keep))
                continue
            if re.match(r'#\[(error|serde)\b', flat):
                self.rules.hit('R2'); continue
            out.append(a)
        return out

    def pubify_head(self, txt: str, it: Item, src: str) -> str:
        """R1 on an item text that starts at it.start: make the item itself pub."""
        attr_len = it.head_start - it.start
        head = txt[attr_len:]
        attrs = '\n'.join(self.filter_attrs(it.attrs))
        new_head = re.sub(r'^pub\s*(\([^)]*\))?\s*', '', head)
        if new_head is head or not head.startswith('pub ') or head.startswith('pub('):
            self.rules.hit('R1')
        res = (attrs + '\n' if attrs else '') + 'pub ' + new_head
        return keep_newlines(txt, res) if res.count('\n') <= txt.count('\n') else res

    def adt_item(self, rel, src, it: Item, line_of):
        addr = '%s::%s' % (rel, it.name)
        c = self.contract_for(addr)
        if c and c.status == 'omitted':
            return
        txt = src[it.start:it.end]
        body_rel = None
        if it.kind == 'struct':
            if not hasattr(self, 'struct_texts'):
                self.struct_texts = {}
            self.struct_texts[it.name] = (re.sub(r'//[^\n]*', '', txt), rel, line_of(it.head_start))
        if it.has_body:
            # R1 on fields (struct only), R2 on in-body attributes
            o = it.body_open - it.start
            cl = it.body_close - it.start
            body = txt[o + 1:cl]
            body = self.strip_inner_attrs(rel, it, body)
            if it.kind == 'struct' and not (c and 'nopubfields' in c.attrs):
                body = self.pub_fields(body)
            body = self.r17_buffile(body)
            gf = [a[len('ghostfield:'):].strip() for a in (c.attrs if c else []) if a.startswith('ghostfield:')]
            if gf:
                # ghost state of the data structure (DESIGN.md 13.8): erased fields, no run-time content
                body = body.rstrip() + '\n' + ''.join('    pub %s: Ghost<%s>,\n' % tuple(x.strip() for x in f.split(':', 1)) for f in gf)
                self.ghost_fields[it.name] = [f.split(':', 1)[0].strip() for f in gf]
            txt = txt[:o + 1] + body + txt[cl:]
        else:
            # tuple struct `struct A(pub String);`
            al = it.head_start - it.start
            if it.kind == 'struct' and '(' in txt[al:]:
                txt = txt[:al] + re.sub(r'\(\s*(?!pub\b)(?=[A-Za-z&\[(])', lambda m: m.group(0) + 'pub ', txt[al:], count=1)
        expand_clone = bool(c and 'expand-derive-clone' in c.attrs)
        if expand_clone:
            it_attrs_before = list(it.attrs)
            it.attrs = [re.sub(r'\bClone\s*,\s*|,\s*Clone\b|\bClone\b', '', a, count=1) if a.startswith('#[derive') else a for a in it.attrs]
            if it.attrs == it_attrs_before:
                raise ToolCondition('R16: %s does not derive Clone' % addr)
            self.rules.hit('R16')
        txt = self.pubify_head(txt, it, src)
        self.record_field_types(rel, txt)
        extra = ''
        if c:
            for a in c.attrs:
                if a.startswith('#'):
                    extra += a + '\n'
        self.emit('\n' + extra + txt + '\n', 'src', src_file=rel, src_line=line_of(it.start))
        if c and c.ghost:
            self.emit(c.ghost, 'spec', src_file=c.src)
        if c and c.after:
            self.emit('\n' + c.after, 'spec', src_file=c.src)
        if expand_clone:
            fields = re.findall(r'(?:pub\s+)?([a-z_][a-z0-9_]*)\s*:', src[it.body_open + 1:it.body_close])
            body = ', '.join('%s: self.%s.clone()' % (f, f) for f in fields)
            self.emit('''
// R16: what `#[derive(Clone)]` generates (field-wise clone), written out so that it carries a postcondition
impl Clone for %s {
    fn clone(&self) -> (r: Self)
        ensures r == *self,
    { %s { %s } }
}
''' % (it.name, it.name, body))
        for (enum, variant, ty) in self.from_impls:
            self.emit(FROM_TEMPLATE.format(enum=enum, variant=variant, ty=ty))
        self.from_impls = []

    def record_field_types(self, rel, txt):
        d = self.field_types.setdefault(rel, {})
        for m in re.finditer(r'\b([a-z_][a-z0-9_]*)\s*:\s*(u16|u32|u64)\b', txt):
            d.setdefault(m.group(1), set()).add(m.group(2))

    def strip_inner_attrs(self, rel, it, body):
        toks = lex(body)
        out = []
        k = 0
        variants_from = []
        s = sig(toks)
        pos = 0
        res = body
        edits = []
        for p, ti in enumerate(s):
            t = toks[ti]
            if t.text == '#' and p + 2 < len(s) and toks[s[p + 1]].text == '[':
                name = toks[s[p + 2]].text
                close = match_close(toks, s[p + 1])
                if name in ('error', 'from', 'serde'):
                    edits.append((t.start, toks[close].end, name))
        for (a, b, name) in reversed(edits):
            if name == 'from':
                # find variant name and type: `Variant(#[from] Type)`
                before = res[:a]
                m = re.search(r'([A-Za-z_][A-Za-z0-9_]*)\s*\(\s*$', before)
                after = res[b:]
                m2 = re.match(r'\s*([^)]*)\)', after)
                if not m or not m2:
                    raise ToolCondition('cannot parse #[from] in %s::%s' % (rel, it.name))
                self.from_impls.append((it.name, m.group(1), m2.group(1).strip()))
            self.rules.hit('R2')
            res = res[:a] + keep_newlines(res[a:b], '') + res[b:]
        return res

    def pub_fields(self, body):
        toks = lex(body)
        s = sig(toks)
        inserts = []
        depth = 0
        expect_field = True
        p = 0
        while p < len(s):
            t = toks[s[p]]
            if expect_field:
                # skip attributes
                if t.text == '#':
                    close = match_close(toks, s[p + 1])
                    p = s.index(close) + 1
                    continue
                if t.kind == 'ident':
                    if t.text == 'pub':
                        nxt = toks[s[p + 1]]
                        if nxt.text == '(':
                            close = match_close(toks, s[p + 1])
                            inserts.append((t.start, toks[close].end, 'pub'))
                            self.rules.hit('R1')
                    else:
                        inserts.append((t.start, t.start, 'pub '))
                        self.rules.hit('R1')
                    expect_field = False
            if t.kind == 'punct':
                if t.text in ('(', '[', '{', '<'):
                    depth += 1
                elif t.text in (')', ']', '}', '>'):
                    depth -= 1
                elif t.text == ',' and depth == 0:
                    expect_field = True
            p += 1
        for a, b, r in reversed(inserts):
            body = body[:a] + r + body[b:]
        return body

    def block_item(self, rel, src, it: Item, line_of):
        if it.kind == 'impl':
            base = type_base(it.impl_type)
            if it.impl_trait:
                key = '%s::<%s for %s>' % (rel, trait_key(it.impl_trait), base)
            else:
                key = '%s::%s' % (rel, base)
            block_addr = key + '::impl' if not it.impl_trait else key
        else:
            key = '%s::trait %s' % (rel, it.name)
            block_addr = key
        c = self.contract_for(block_addr)
        if c and c.status == 'omitted':
            self.rules.hit('omitted-item')
            return
        attrs = self.filter_attrs(it.attrs)
        header = src[it.head_start:it.body_open]
        if it.kind == 'trait':
            header = re.sub(r'^pub\s*(\([^)]*\))?\s*', '', header)
            header = 'pub ' + header
        extra = ''.join(a + '\n' for a in (c.attrs if c else []))
        if c and c.status == 'external':
            extra += '#[verifier::external]\n'
        header, k14 = re.subn(r'\s*\+\s*Unpin\b', '', header)
        self.rules.hit('R14', k14)
        self.emit('\n' + extra + ''.join(a + '\n' for a in attrs) + header + '{', 'src', src_file=rel,
                  src_line=line_of(it.head_start))
        for ch in it.children:
            if any(re.match(r'#\[cfg\(test\)\]', a) for a in ch.attrs):
                self.rules.hit('R12'); continue
            if ch.kind == 'fn':
                self.fn_item(rel, src, ch, line_of, it, key, block_external=bool(c and c.status == 'external'))
            else:
                txt = src[ch.start:ch.end]
                self.emit('\n' + txt, 'src', src_file=rel, src_line=line_of(ch.start))
        if c and c.ghost:
            self.emit('\n' + c.ghost, 'spec', src_file=c.src)
        self.emit('\n}\n')
        if c and c.after:
            self.emit('\n' + c.after, 'spec', src_file=c.src)
        for t, srcname in self.pending_after:
            self.emit('\n' + t, 'spec', src_file=srcname)
        self.pending_after = []

    # ------------------------------------------------------------------ functions
    def fn_item(self, rel, src, it: Item, line_of, parent: Optional[Item], key=None, block_external=False):
        addr = '%s::%s' % (key, it.name) if key else '%s::%s' % (rel, it.name)
        c = self.contract_for(addr)
        status = c.status if c else 'verify'
        if block_external:
            status = 'external'
        if status == 'omitted':
            self.rules.hit('omitted-item')
            self.fns.append(FnInfo(addr=addr, status='omitted', src_file=rel, src_line=line_of(it.head_start), tags=[]))
            return
        txt = src[it.start:it.end]
        attr_len = it.head_start - it.start
        head_and_body = txt[attr_len:]
        attrs = self.filter_attrs(it.attrs)
        in_trait_impl = parent is not None and (parent.kind == 'trait' or parent.impl_trait)
        # R1
        if not in_trait_impl:
            nb = re.sub(r'^pub\s*(\([^)]*\))?\s*', '', head_and_body)
            if not head_and_body.startswith('pub ') or head_and_body.startswith('pub('):
                self.rules.hit('R1')
            head_and_body = 'pub ' + nb
        if c and c.stub:
            if status != 'trusted' or not it.has_body:
                raise ToolCondition('%s: @stub needs status trusted and a body' % addr)
            o = it.body_open - it.head_start + (len(head_and_body) - len(txt[attr_len:]))
            body = head_and_body[o:]
            head_and_body = head_and_body[:o] + keep_newlines(body, '{ unimplemented!() }')
            self.rules.hit('R9')
        if status != 'external':
            head_and_body = self.rewrite_fn_text(rel, addr, head_and_body)
        else:
            # external functions are only compiled: the type-level rules still apply so that they keep compiling
            head_and_body = self.r18_ghost_literals(self.r17_buffile(head_and_body))
        canary_on = getattr(self, 'canary', False) and c is not None and status == 'verify' and it.has_body
        as_clone = bool(c and 'verify-as-clone' in c.attrs and status == 'verify' and it.has_body and not in_trait_impl)
        if as_clone:
            # The body is verified under the name NAME__verif_impl; callers see NAME itself as an external_body signature
            # carrying the identical contract (same clause text).  Workaround for a Verus quirk, see DESIGN.md 13.10.
            sig_segs = self.splice_fn(rel, addr + '#callsig', head_and_body, it, c, 'trusted', line_of(it.head_start))
            sig_info = FnInfo(addr=addr + '#callsig', status='callsig', src_file=rel, src_line=line_of(it.head_start), tags=[], has_contract=True)
            sig_info.bodytags = {}
            sig_info.canary = False
            self.emit('\n' + ''.join(a + '\n' for a in self.filter_attrs(it.attrs)) + '#[verifier::external_body]\n')
            a_ = len(self.segs)
            self.segs.extend(sig_segs)
            sig_info._seg_range = (a_, len(self.segs))
            sig_info.clause_ids = []
            self.fns.append(sig_info)
            head_and_body = re.sub(r'\bfn\s+%s\b' % re.escape(it.name), 'fn %s__verif_impl' % it.name, head_and_body, count=1)
            self.rules.hit('verify-as-clone')
        segs = self.splice_fn(rel, addr, head_and_body, it, c, status, line_of(it.head_start),
                              canary_mode=('start' if (canary_on and in_trait_impl) else None))
        fn_tags = list(c.tags if c else [])
        # C10 by default: a failing body obligation (overflow, index, unwrap, assert!, decreases) of a verified function is a possible panic or
        # hang, and every function of the crate except the five API mutators (and persist_on_policy, which only they call) is reachable from
        # `open` (replay, hand-over to the writer, the GC pass that open runs) or from a read accessor.  Found by seed C10_h: position_to_idx
        # carried C05 only, so its overflow was reported for C05 and not for C10.
        if status == 'verify' and 'C10' not in fn_tags and not re.search(
                r'MultiRecordLog::(create_queue|delete_queue|append_record|append_records|truncate|persist_on_policy)$', addr):
            fn_tags.append('C10')
        info = FnInfo(addr=addr, status=status, src_file=rel, src_line=line_of(it.head_start),
                      tags=fn_tags, bounded=(c.bounded if c else None), has_contract=bool(c))
        info.bodytags = dict(c.bodytags) if c else {}
        info.canary = (addr in self.canary_fns)
        info.src_sha = hashlib.sha256(re.sub(r'\s+', ' ', txt).encode()).hexdigest()[:16]
        pre = '\n' + ''.join(a + '\n' for a in attrs)
        if c:
            pre += ''.join(a + '\n' for a in c.attrs if a.startswith('#'))
        if status == 'trusted' and it.has_body:
            pre += '#[verifier::external_body]\n'
        elif status == 'external' and not block_external:
            pre += '#[verifier::external]\n'
        self.emit(pre)
        if c and c.after:
            if parent is not None:
                self.pending_after.append((c.after, c.src))
        start_idx = len(self.segs)
        self.segs.extend(segs)
        info._seg_range = (start_idx, len(self.segs))
        info.clause_ids = [s.oid for s in segs if s.origin in ('clause', 'proof')]
        self.fns.append(info)
        if c and c.after and parent is None:
            self.emit('\n' + c.after, 'spec', src_file=c.src)
        if canary_on and not in_trait_impl:
            # vacuity canary: a renamed copy of the function with `ensures false`; callers keep seeing the real one
            nm_ = it.name + ('__verif_impl' if as_clone else '')
            hb2 = re.sub(r'\bfn\s+%s\b' % re.escape(nm_), 'fn %s__verif_canary' % it.name, head_and_body, count=1)
            caddr = addr + '#canary'
            segs2 = self.splice_fn(rel, caddr, hb2, it, c, status, line_of(it.head_start), canary_mode='clone')
            for sg in segs2:
                if sg.origin in ('clause', 'proof') and not sg.oid.startswith('CANARY:'):
                    sg.oid = 'CANARYCOPY:' + sg.oid
                    sg.tags = ()
            info2 = FnInfo(addr=caddr, status=status, src_file=rel, src_line=line_of(it.head_start), tags=[], has_contract=True)
            info2.bodytags = {}
            info2.canary = True
            self.emit(pre)
            a2 = len(self.segs)
            self.segs.extend(segs2)
            info2._seg_range = (a2, len(self.segs))
            self.fns.append(info2)

    # --- rewrite rules that act on function text (newline preserving)
    def rewrite_fn_text(self, rel, addr, txt: str) -> str:
        txt = self.r3_tracing(txt)
        txt = self.r5_asserts(txt)
        txt = self.r6_le_bytes(rel, txt)
        txt = self.r7_drain(txt)
        txt = self.r4_wildcards(txt)
        txt = self.r13_for_mut(txt)
        txt = self.r17_buffile(txt)
        c_ = self.contract_for(addr)
        gi = dict((a[len('ghostinit:'):].split(':', 1)[0].strip(), a[len('ghostinit:'):].split(':', 1)[1].strip()) for a in (c_.attrs if c_ else []) if a.startswith('ghostinit:'))
        txt = self.r18_ghost_literals(txt, gi)
        txt = self.r27_mut_self(txt)
        txt = self.r19_zip_from(txt)
        txt = self.r20_read_exact(txt)
        txt = self.r22_range_bounds(txt)
        txt = self.r23_deref_patterns(txt)
        txt = self.r24_take_while_map(txt)
        txt = self.r26_btree_next_after(txt)
        txt = self.r28_keys_map(txt)
        txt = self.r31_iter_map_sum(txt)
        # R32: `X.extend(S.iter().copied())` -> `vshim::extend_copied(&mut X, S)` (Extend::extend is generic over IntoIterator; Copied<Iter> has no vstd model)
        txt, k32 = re.subn(r'\b((?:self\s*\.\s*)?[a-z_][a-z0-9_]*)\.extend\(\s*([a-z_][a-z0-9_]*)\.iter\(\)\.copied\(\)\s*\)', r'crate::vshim::extend_copied(&mut \1, \2)', txt)
        self.rules.hit('R32', k32)
        # R29: `std::fs::read_dir(` -> `crate::vshim::read_dir(` (ReadDir is a foreign iterator type: stand-in DirIter)
        txt, k29 = re.subn(r'\b(?:std::)?fs::read_dir\(', 'crate::vshim::read_dir(', txt)
        self.rules.hit('R29', k29)
        return txt

    def r22_range_bounds(self, txt):
        # R22: `X.start_bound()` / `X.end_bound()` / `X.contains(&E)` on a generic `impl RangeBounds<T>` -> `vshim::start_bound(&X)` /
        # `vshim::end_bound(&X)` / `vshim::range_contains(&X, &E)`: vstd specifies the concrete impls (Range, RangeTo, ...) but a call
        # through the trait bound gets no contract; the shim calls the same trait method and is assumed to return what vstd's
        # spec of the trait (`spec_start_bound` / `spec_end_bound`) says
        def rep(m):
            self.rules.hit('R22')
            return 'crate::vshim::%s_bound(&%s)' % (m.group(2), m.group(1))
        txt = re.sub(r'\b([a-z_][a-z0-9_]*)\.(start|end)_bound\(\)', rep, txt)
        def rep2(m):
            self.rules.hit('R22')
            return 'crate::vshim::range_contains(&%s, &' % m.group(1)
        txt = re.sub(r'\b([a-z_][a-z0-9_]*)\.contains\(\s*&', rep2, txt)
        # `IT.size_hint()` (a trait method every iterator overrides): shim assumed to respect the documented bounds
        def rep3(m):
            self.rules.hit('R22')
            return 'crate::vshim::size_hint(&%s)' % m.group(1)
        return re.sub(r'\b([a-z_][a-z0-9_]*)\.size_hint\(\)', rep3, txt)

    def r26_btree_next_after(self, txt):
        # R26: `SET.range((Excluded(K), Unbounded)).next()` -> `vshim::btree_next_after(&SET, K)`: BTreeSet::range is generic over
        # `K: ?Sized, T: Borrow<K>, R: RangeBounds<K>` (no assumed contract expressible) and returns an adapter type; the shim holds the
        # std expression and is assumed to return the least tracked element whose number exceeds K
        def rep(m):
            self.rules.hit('R26')
            recv = re.sub(r'\s+', '', m.group(1))
            return 'crate::vshim::btree_next_after(&%s, %s)' % (recv, m.group(2).strip()) + '\n' * m.group(0).count('\n')
        return re.sub(r'((?:self\s*\.\s*)?[a-z_][a-z0-9_]*)\s*\.range\(\(Excluded\(([^()]*)\),\s*Unbounded\)\)\s*\.next\(\)', rep, txt)

    def r28_keys_map(self, txt):
        # R28: `X.keys().map(F)` -> `vshim::iter_map(X.keys(), F)`: Iterator::map is a provided trait method returning an adapter type
        # without vstd model; the shim holds the std call and is assumed to yield F(item) for every item, in order
        sg = [t for t in lex(txt) if t.kind not in ('ws', 'comment')]
        for i in range(len(sg) - 7):
            if (sg[i].text == '.' and sg[i + 1].text == 'keys' and sg[i + 2].text == '(' and sg[i + 3].text == ')' and sg[i + 4].text == '.'
                    and sg[i + 5].text == 'map' and sg[i + 6].text == '('):
                d, close = 0, None
                for j in range(i + 6, len(sg)):
                    if sg[j].text in ('(', '[', '{'):
                        d += 1
                    elif sg[j].text in (')', ']', '}'):
                        d -= 1
                        if d == 0:
                            close = j; break
                # receiver: identifiers and dots going backwards
                k = i
                while k - 1 >= 0 and (sg[k - 1].kind == 'ident' or sg[k - 1].text == '.'):
                    k -= 1
                if close is None or k == i:
                    continue
                recv = txt[sg[k].start:sg[i + 3].end]
                f_txt = txt[sg[i + 6].end:sg[close].start]
                self.rules.hit('R28')
                return self.r28_keys_map(txt[:sg[k].start] + 'crate::vshim::iter_map(' + recv + ',' + '\n' * txt[sg[i + 3].end:sg[i + 6].end].count('\n') + f_txt + ')' + txt[sg[close].end:])
        return txt

    def r31_iter_map_sum(self, txt):
        # R31: the statement `let NAME = X.iter().map(F).sum();` -> `let verif_itN = X.iter(); let ghost verif_srcN = verif_itN.remaining(); let verif_fN = F; let NAME = vshim::iter_map_sum(verif_itN, &verif_fN);`
        # Iterator::map / sum are provided trait methods without vstd model: the shim holds the std calls and is assumed to return the sum of F
        # over the items; the iterator and the closure are bound to names so that the caller's proof can speak about them.
        # R30 (applied to F here): a tuple-pattern closure parameter `|(a, b)| E` -> `|verif_t| { let (a, b) = verif_t; E }` (Verus wants identifier patterns)
        n = 0
        while True:
            sg = [t for t in lex(txt) if t.kind not in ('ws', 'comment')]
            hit = None
            for i in range(len(sg) - 7):
                if (sg[i].text == '.' and sg[i + 1].text == 'iter' and sg[i + 2].text == '(' and sg[i + 3].text == ')' and sg[i + 4].text == '.'
                        and sg[i + 5].text == 'map' and sg[i + 6].text == '('):
                    d, close = 0, None
                    for j in range(i + 6, len(sg)):
                        if sg[j].text in ('(', '[', '{'):
                            d += 1
                        elif sg[j].text in (')', ']', '}'):
                            d -= 1
                            if d == 0:
                                close = j; break
                    if close is None or close + 5 >= len(sg) or not (sg[close + 1].text == '.' and sg[close + 2].text == 'sum' and sg[close + 3].text == '('
                                                                     and sg[close + 4].text == ')' and sg[close + 5].text == ';'):
                        continue
                    k = i
                    while k - 1 >= 0 and (sg[k - 1].kind == 'ident' or sg[k - 1].text == '.'):
                        k -= 1
                    # the chain must be the whole initialiser of `let NAME =`
                    if k < 3 or sg[k - 1].text != '=' or sg[k - 2].kind != 'ident' or sg[k - 3].text != 'let':
                        continue
                    hit = (k, i, close); break
            if hit is None:
                return txt
            k, i, close = hit
            n += 1
            name = sg[k - 2].text
            recv = re.sub(r'\s+', '', txt[sg[k].start:sg[i + 3].end])
            f_txt = txt[sg[i + 6].end:sg[close].start].strip()
            m = re.match(r'\|\s*\(([^()|]*)\)\s*\|\s*(.*)$', f_txt, re.S)
            if m:
                f_txt = '|verif_t| { let (%s) = verif_t; %s }' % (m.group(1).strip(), m.group(2).strip())
                self.rules.hit('R30')
            whole = txt[sg[k - 3].start:sg[close + 5].end]
            new = ('let verif_it%d = %s; let ghost verif_src%d = verif_it%d.remaining(); let verif_f%d = %s; let %s = crate::vshim::iter_map_sum(verif_it%d, &verif_f%d);'
                   % (n, recv, n, n, n, f_txt, name, n, n)
                   + '\n' * whole.count('\n'))
            self.rules.hit('R31')
            txt = txt[:sg[k - 3].start] + new + txt[sg[close + 5].end:]

    def r23_deref_patterns(self, txt):
        # R23: a reference pattern binding a Copy value in a match arm, `PATH(&NAME) => {` -> `PATH(NAME__verif_ref) => { let NAME = *NAME__verif_ref;`
        # and `PATH(&NAME) => EXPR,` -> `PATH(NAME__verif_ref) => { let NAME = *NAME__verif_ref; EXPR },`
        # (Verus: "ref patterns" unsupported); definitional desugaring of the pattern
        while True:
            sg = [t for t in lex(txt) if t.kind not in ('ws', 'comment')]
            hit = None
            for i in range(len(sg) - 5):
                if (sg[i].text == '(' and sg[i + 1].text == '&' and sg[i + 2].kind == 'ident' and sg[i + 3].text == ')'
                        and sg[i + 4].text == '=>' and i > 0 and sg[i - 1].kind == 'ident' and sg[i - 1].text[:1].isupper()):
                    hit = i; break
            if hit is None:
                return txt
            i = hit
            name = sg[i + 2].text
            let = ' let %s = *%s__verif_ref;' % (name, name)
            if sg[i + 5].text == '{':
                txt = txt[:sg[i + 1].start] + name + '__verif_ref' + txt[sg[i + 2].end:sg[i + 5].end] + let + txt[sg[i + 5].end:]
            else:
                d, end = 0, None
                for j in range(i + 5, len(sg)):
                    if sg[j].text in ('(', '[', '{'):
                        d += 1
                    elif sg[j].text in (')', ']', '}'):
                        d -= 1
                        if d < 0:
                            end = sg[j].start; break
                    elif sg[j].text == ',' and d == 0:
                        end = sg[j].start; break
                if end is None:
                    raise ToolCondition('R23: cannot find the end of a match arm')
                e2 = end
                while e2 > 0 and txt[e2 - 1].isspace():
                    e2 -= 1
                txt = (txt[:sg[i + 1].start] + name + '__verif_ref' + txt[sg[i + 2].end:sg[i + 4].end] + ' {' + let + ' '
                       + txt[sg[i + 4].end:e2].lstrip(' ') + ' }' + txt[e2:])
            self.rules.hit('R23')

    def r24_take_while_map(self, txt):
        # R24: `(A..B).take_while(P).map(F)` -> `vshim::range_take_while_map(A, B, P, F)`: Iterator::take_while / map are provided trait
        # methods returning adapter types without vstd model; the shim holds the std expression and is assumed to behave as std documents
        toks = [t for t in lex(txt)]
        sg = [t for t in toks if t.kind not in ('ws', 'comment')]
        def close_of(i):   # index in sg of the bracket matching sg[i]
            d = 0
            for j in range(i, len(sg)):
                if sg[j].text in ('(', '[', '{'):
                    d += 1
                elif sg[j].text in (')', ']', '}'):
                    d -= 1
                    if d == 0:
                        return j
            return None
        for i, t in enumerate(sg):
            if t.text != '(':
                continue
            c1 = close_of(i)
            if c1 is None or c1 + 3 >= len(sg):
                continue
            inner = sg[i + 1:c1]
            dd = [k for k, x in enumerate(inner) if x.text == '..']
            if len(dd) != 1 or not (sg[c1 + 1].text == '.' and sg[c1 + 2].text == 'take_while' and sg[c1 + 3].text == '('):
                continue
            c2 = close_of(c1 + 3)
            if c2 is None or not (sg[c2 + 1].text == '.' and sg[c2 + 2].text == 'map' and sg[c2 + 3].text == '('):
                continue
            c3 = close_of(c2 + 3)
            if c3 is None:
                continue
            a_txt = txt[inner[0].start:inner[dd[0]].start].strip()
            b_txt = txt[inner[dd[0]].end:sg[c1].start].strip()
            p_txt = txt[sg[c1 + 3].end:sg[c2].start]
            f_txt = txt[sg[c2 + 3].end:sg[c3].start]
            if not a_txt or not b_txt:
                continue
            gap1 = txt[sg[c1].end:sg[c1 + 3].end]      # `\n .take_while(`
            gap2 = txt[sg[c2].start:sg[c2 + 3].end]    # `)\n .map(`
            new = ('crate::vshim::range_take_while_map(%s, %s,' % (a_txt, b_txt) + '\n' * (txt[sg[i].start:sg[c1].end].count('\n') + gap1.count('\n'))
                   + p_txt + ',' + '\n' * gap2.count('\n') + f_txt + ')')
            self.rules.hit('R24')
            return self.r24_take_while_map(txt[:sg[i].start] + new + txt[sg[c3].end:])
        return txt

    def r20_read_exact(self, txt):
        # R20: `FILE.read_exact(&mut *BLOCK)` -> `vshim::read_exact_block(&mut FILE, &mut BLOCK)`: `Read::read_exact` is a provided
        # trait method (no assumed contract can be attached) and `&mut *` on a Box<[u8; N]> trips a Verus internal error
        def rep(m):
            self.rules.hit('R20')
            return 'crate::vshim::read_exact_block(&mut %s, &mut %s)' % (m.group(1), m.group(2))
        txt = re.sub(r'\b([a-z_][a-z0-9_]*)\.read_exact\(\s*&mut \*([a-z_][a-z0-9_]*)\s*\)', rep, txt)
        # the same call on a `&mut [u8; N]` parameter (read_block)
        def rep2(m):
            self.rules.hit('R20')
            return 'crate::vshim::read_exact_arr(%s, %s)' % (m.group(1), m.group(2))
        txt = re.sub(r'\b([a-z_][a-z0-9_]*)\.read_exact\(\s*([a-z_][a-z0-9_]*)\s*\)', rep2, txt)
        # `E.kind() == io::ErrorKind::UnexpectedEof` -> shim predicate (io::ErrorKind is a large non-exhaustive external enum)
        def rep3(m):
            self.rules.hit('R20')
            return 'crate::vshim::is_unexpected_eof(&%s)' % m.group(1)
        txt = re.sub(r'\b([a-z_][a-z0-9_]*)\.kind\(\)\s*==\s*(?:std::)?io::ErrorKind::UnexpectedEof', rep3, txt)
        # R21: `Instant::now() + EXPR` -> `vshim::instant_after(EXPR)`: the orphan rule forbids an `AddSpecImpl` for Instant
        def rep4(m):
            self.rules.hit('R21')
            return 'crate::vshim::instant_after(%s)' % m.group(1).strip()
        txt = re.sub(r'\bInstant::now\(\)\s*\+\s*(\*?[a-z_][a-z0-9_]*)', rep4, txt)
        return txt

    def r19_zip_from(self, txt):
        # R19: `(START..).zip(ITER)` -> `vshim::zip_from(START, ITER)`: vstd has no contract for Iterator::zip / RangeFrom
        def rep(m):
            self.rules.hit('R19')
            return 'crate::vshim::zip_from(%s, %s)' % (m.group(1), m.group(2).strip())
        return re.sub(r'\(\s*([A-Za-z_][A-Za-z0-9_]*)\s*\.\.\s*\)\s*\.zip\(([^()]*)\)', rep, txt)

    def r17_buffile(self, txt):
        # R17: `BufWriter<File>` is opaque to Verus (generic over an external trait): the stand-in
        # `vshim::BufFile` (an external_body wrapper of the same std type) carries the assumed std contracts.
        n = 0
        txt, k = re.subn(r'\bBufWriter\s*<\s*File\s*>', 'crate::vshim::BufFile', txt); n += k
        txt, k = re.subn(r'\bBufWriter::with_capacity\s*\(', 'crate::vshim::BufFile::with_capacity(', txt); n += k
        # `f.get_ref().sync_data()`: &File receiver, so no ghost effect can be stated: the stand-in method takes &mut
        txt, k = re.subn(r'\.get_ref\(\)\s*\.sync_data\(\)', '.sync_data()', txt); n += k
        if n:
            self.rules.hit('R17', n)
        return txt

    def r18_ghost_literals(self, txt, inits=None):
        # R18: a struct given ghost fields: its literals get `Ghost::assume_new()` (unverified constructors) or, where the
        # contract of the function supplies them (`@attr ghostinit:<field>: <spec expr>`), `Ghost(<spec expr>)`
        inits = inits or {}
        for name, fields in self.ghost_fields.items():
            def rep(m):
                self.rules.hit('R18')
                return m.group(0) + ' '.join(('%s: Ghost(%s),' % (f, inits[f])) if f in inits else ('%s: Ghost::assume_new(),' % f) for f in fields) + ' '
            txt = re.sub(r'\b%s\s*\{(?=\s*[a-z_][a-z0-9_]*\s*[:,])' % re.escape(name), rep, txt)
        return txt

    def r27_mut_self(self, txt):
        # R27: a `mut self` receiver (Verus: unsupported) -> `self` plus `let mut verif_self = self;` as first statement, and every
        # `self` of the body becomes `verif_self`: the definition of a `mut` binding mode on a by-value parameter
        m = re.search(r'\(\s*mut\s+self\s*(?=[,)])', txt)
        if not m:
            return txt
        sg = [t for t in lex(txt) if t.kind not in ('ws', 'comment')]
        depth, body_open = 0, None
        for t in sg:
            if t.start < m.start():
                continue
            if t.text in ('(', '['):
                depth += 1
            elif t.text in (')', ']'):
                depth -= 1
            elif t.text == '{' and depth == 0:
                body_open = t; break
        if body_open is None:
            return txt
        head = txt[:m.start()] + '(self' + txt[m.end():body_open.end]
        body = re.sub(r'\bself\b', 'verif_self', txt[body_open.end:])
        self.rules.hit('R27')
        return head + ' let mut verif_self = self;' + body

    def _macro_calls(self, txt, names):
        """yield (start, end_of_paren, name, args_text, stmt_like) for NAME!( ... )"""
        toks = lex(txt)
        s = sig(toks)
        res = []
        for p, ti in enumerate(s):
            t = toks[ti]
            if t.kind == 'ident' and t.text in names and p + 2 < len(s) and toks[s[p + 1]].text == '!' \
                    and toks[s[p + 2]].text in ('(', '[', '{'):
                close = match_close(toks, s[p + 2])
                prev = toks[s[p - 1]].text if p > 0 else '{'
                pc = s.index(close)
                nxt = toks[s[pc + 1]] if pc + 1 < len(s) else None
                res.append(dict(start=t.start, open=toks[s[p + 2]].end, close=toks[close].start,
                                end=toks[close].end, name=t.text, prev=prev,
                                semi_end=(nxt.end if nxt is not None and nxt.text == ';' else None)))
        return res

    def r3_tracing(self, txt):
        # the debug-only block of run_gc_if_necessary
        m = re.search(r'if\s+event_enabled!\s*\(', txt)
        if m:
            toks = lex(txt)
            s = sig(toks)
            k = next(i for i in s if toks[i].start == m.start())
            p = s.index(k)
            # find the block `{` after the macro parens
            q = p
            while toks[s[q]].text != '(':
                q += 1
            close = match_close(toks, s[q])
            q = s.index(close) + 1
            if toks[s[q]].text != '{':
                raise ToolCondition('R3: unexpected shape after event_enabled!')
            bclose = match_close(toks, s[q])
            a, b = toks[k].start, toks[bclose].end
            # comment lines directly above stay (they are comments)
            txt = txt[:a] + keep_newlines(txt[a:b], '') + txt[b:]
            self.rules.hit('R3-debug-block')
        calls = [c for c in self._macro_calls(txt, TRACING_MACROS)
                 if c['semi_end'] is not None and c['prev'] in ('{', '}', ';')]
        for c in reversed(calls):
            a, b = c['start'], c['semi_end']
            txt = txt[:a] + keep_newlines(txt[a:b], '') + txt[b:]
            self.rules.hit('R3')
        # tracing macro as the only content of an `else { warn!(..); continue; }` is covered above
        return txt

    def r5_asserts(self, txt):
        calls = [c for c in self._macro_calls(txt, {'assert', 'assert_eq', 'assert_ne', 'debug_assert'})]
        for c in reversed(calls):
            args = split_top_commas(txt[c['open']:c['close']])
            if c['name'] in ('assert', 'debug_assert'):
                cond = args[0].strip()
            elif c['name'] == 'assert_eq':
                cond = '%s == %s' % (args[0].strip(), args[1].strip())
            else:
                cond = '%s != %s' % (args[0].strip(), args[1].strip())
            # the condition is still evaluated in exec mode (as assert! does); that it is true
            # becomes a proof obligation instead of a run-time panic
            new = '{ let verif_assert_cond: bool = %s; assert(verif_assert_cond) }' % cond
            a, b = c['start'], c['end']
            txt = txt[:a] + keep_newlines(txt[a:b], new) + txt[b:]
            self.rules.hit('R5')
        return txt

    def r6_le_bytes(self, rel, txt):
        # uN::from_le_bytes(ARG)
        while True:
            m = re.search(r'\b(u16|u32|u64)::from_le_bytes\s*\(', txt)
            if not m:
                break
            toks = lex(txt)
            k = next(i for i, t in enumerate(toks) if t.start == m.end() - 1)
            close = match_close(toks, k)
            arg = txt[m.end():toks[close].start]
            flat = arg.strip()
            mm = re.match(r'^(.*)\.try_into\(\)\s*\.unwrap\(\)$', flat, re.S)
            if mm:
                new = 'vshim::%s_from_le_slice(&%s)' % (m.group(1), mm.group(1).strip())
            elif flat.startswith('['):
                new = 'vshim::%s_from_le_array(%s)' % (m.group(1), flat)
            else:
                raise ToolCondition('R6: unsupported from_le_bytes argument %r' % flat)
            a, b = m.start(), toks[close].end
            txt = txt[:a] + keep_newlines(txt[a:b], new) + txt[b:]
            self.rules.hit('R6')
        # EXPR.to_le_bytes()
        while True:
            m = re.search(r'\.to_le_bytes\s*\(\s*\)', txt)
            if not m:
                break
            # receiver: either a parenthesised expression or a path of idents/fields
            a = m.start()
            if txt[a - 1] == ')':
                toks = lex(txt[:a])
                # find matching open paren
                depth = 0
                j = len(toks) - 1
                while j >= 0:
                    if toks[j].kind == 'punct' and toks[j].text == ')':
                        depth += 1
                    elif toks[j].kind == 'punct' and toks[j].text == '(':
                        depth -= 1
                        if depth == 0:
                            break
                    j -= 1
                rs = toks[j].start
                recv = txt[rs:a]
                mm = re.search(r'\bas\s+(u16|u32|u64)\s*\)$', recv)
                if not mm:
                    raise ToolCondition('R6: cannot type receiver %r' % recv)
                ty = mm.group(1)
            else:
                mm = re.search(r'((?:[A-Za-z_][A-Za-z0-9_]*\.)*)([A-Za-z_][A-Za-z0-9_]*)$', txt[:a])
                rs = mm.start()
                recv = txt[rs:a]
                name = mm.group(2)
                tys = set()
                for mt in re.finditer(r'\b%s\s*:\s*(u16|u32|u64)\b' % re.escape(name), txt):
                    tys.add(mt.group(1))
                tys |= self.field_types.get(rel, {}).get(name, set())
                if len(tys) != 1:
                    raise ToolCondition('R6: cannot type receiver %r (candidates %s)' % (recv, tys))
                ty = tys.pop()
            new = 'vshim::%s_to_le_bytes(%s)' % (ty, recv)
            txt = txt[:rs] + keep_newlines(txt[rs:m.end()], new) + txt[m.end():]
            self.rules.hit('R6')
        return txt

    def r7_drain(self, txt):
        def rep(m):
            self.rules.hit('R7')
            recv, arg = m.group(2), m.group(3).strip()
            if arg.startswith('..'):
                return '%svshim::vec_drain_front(&mut %s, %s);' % (m.group(1), recv, arg[2:])
            return '%svshim::vecdeque_drain_to(&mut %s, %s);' % (m.group(1), recv, arg)
        return re.sub(r'(^|[;{}]\s*)((?:[A-Za-z_][A-Za-z0-9_]*\.)*[A-Za-z_][A-Za-z0-9_]*)\.drain\(([^()]*)\);',
                      rep, txt, flags=re.M)

    def r4_wildcards(self, txt):
        n = [0]

        def fresh():
            n[0] += 1
            self.rules.hit('R4')
            return '_w%d' % n[0]
        # fn parameter patterns `_: T`
        txt = re.sub(r'([(,]\s*)_(\s*:)', lambda m: m.group(1) + fresh() + m.group(2), txt)
        # closure parameter `|_|`
        txt = re.sub(r'\|\s*_\s*\|', lambda m: '|' + fresh() + '|', txt)
        return txt

    def r8_path(self, txt):
        # only in the signature part
        toks = lex(txt)
        s = sig(toks)
        body = None
        for ti in s:
            if toks[ti].text == '{':
                body = toks[ti].start; break
            if toks[ti].text == ';':
                break
        head = txt if body is None else txt[:body]
        new_head, k = re.subn(r'&Path\b', '&PathBuf', head)
        self.rules.hit('R8', k)
        return new_head + (txt[len(head):])

    def r13_for_mut(self, txt):
        def rep(m):
            self.rules.hit('R13')
            return '%sfor %s in %s.iter_mut() {' % (m.group(1), m.group(2), m.group(3))
        txt = re.sub(r'(^|\s)for\s+([A-Za-z_][A-Za-z0-9_]*)\s+in\s+&mut\s+((?:[A-Za-z_][A-Za-z0-9_]*\.)*[A-Za-z_][A-Za-z0-9_]*)\s*\{',
                     rep, txt)
        # shared form: `for PAT in &V {` -> `for PAT in V.iter() {` (std defines `<&C as IntoIterator>::into_iter` as `C::iter` for Vec, HashMap, ...)
        def rep2(m):
            self.rules.hit('R13')
            return '%sfor %s in %s.iter() {' % (m.group(1), m.group(2), m.group(3))
        return re.sub(r'(^|\s)for\s+(\([^()]*\)|[A-Za-z_][A-Za-z0-9_]*)\s+in\s+&((?:[A-Za-z_][A-Za-z0-9_]*\.)*[A-Za-z_][A-Za-z0-9_]*)\s*\{',
                      rep2, txt)

    # --- splice
    def splice_fn(self, rel, addr, txt: str, it: Item, c: Optional[Contract], status, src_line, canary_mode=None) -> List[Seg]:
        """txt starts at the fn head (after attrs). Returns segments."""
        toks = lex(txt)
        s = sig(toks)
        # locate parameter list, `->`, where, body
        p = 0
        while toks[s[p]].text != 'fn':
            p += 1
        # generics / params
        q = p + 2
        if toks[s[q]].text == '<':
            d = 0
            while True:
                tt = toks[s[q]].text
                if tt == '<':
                    d += 1
                elif tt == '>':
                    d -= 1
                    if d == 0:
                        break
                elif tt == '>>':
                    d -= 2
                    if d <= 0:
                        break
                q += 1
            q += 1
        if toks[s[q]].text != '(':
            raise ToolCondition('cannot find parameter list of %s' % addr)
        pclose = s.index(match_close(toks, s[q]))
        r = pclose + 1
        arrow = None
        where_tok = None
        body_tok = None
        semi_tok = None
        d = 0
        while r < len(s):
            tt = toks[s[r]]
            if tt.kind == 'punct' and tt.text in ('(', '['):
                r = s.index(match_close(toks, s[r])) + 1
                continue
            if tt.text == '->' and arrow is None:
                arrow = s[r]
            elif tt.kind == 'ident' and tt.text == 'where' and where_tok is None:
                where_tok = s[r]
            elif tt.text == '{':
                body_tok = s[r]; break
            elif tt.text == ';':
                semi_tok = s[r]; break
            r += 1
        end_sig_tok = body_tok if body_tok is not None else semi_tok
        if end_sig_tok is None:
            raise ToolCondition('cannot find end of signature of %s' % addr)
        inserts = []   # (offset, Seg-or-text, replace_end)
        if c and c.ret:
            if arrow is None:
                raise ToolCondition('%s: @ret on a function without return type' % addr)
            ty_start = toks[arrow].end
            ty_end_tok = where_tok if where_tok is not None else end_sig_tok
            ty_end = toks[ty_end_tok].start
            ty = txt[ty_start:ty_end]
            inserts.append((ty_start, Seg(' (%s: %s) ' % (c.ret, ty.strip()) + '\n' * ty.count('\n'), 'src'), ty_end))
        # spec clauses
        sig_end = toks[end_sig_tok].start
        spec_segs = []
        if c:
            req = [cl for cl in c.clauses if cl.kind == 'requires']
            ens = [cl for cl in c.clauses if cl.kind == 'ensures']
            if req:
                spec_segs.append(Seg('\n    requires\n', 'gen'))
                for cl in req:
                    spec_segs.append(self.clause_seg(cl, addr))
            canary = canary_mode == 'clone' and status == 'verify' and body_tok is not None
            if ens or canary:
                spec_segs.append(Seg('\n    ensures\n', 'gen'))
                for cl in ens:
                    spec_segs.append(self.clause_seg(cl, addr))
                if canary:
                    spec_segs.append(Seg('        false,\n', 'clause', oid='CANARY:' + short(addr), tags=(), ckind='ensures', addr=addr))
                    self.canary_fns.add(addr)
            if c.decreases:
                spec_segs.append(Seg('\n    decreases %s\n' % c.decreases, 'gen'))
            if spec_segs:
                spec_segs.append(Seg('\n', 'gen'))
        for sg in spec_segs:
            inserts.append((sig_end, sg, sig_end))
        if c and body_tok is not None and status != 'verify':
            # structural obligations (@contains) also apply to functions that are only compiled (trusted / external)
            bc_ = match_close(toks, body_tok)
            body_txt = re.sub(r'//[^\n]*', '', txt[toks[body_tok].end:toks[bc_].start])
            for (b_re, oid, tags) in c.contains:
                ok = bool(re.search(b_re, body_txt))
                self.syntactic.append(dict(oid=oid, tags=tags, addr=addr, ok=ok, why=('' if ok else '/%s/ no longer occurs in the function' % b_re),
                                           src_file=rel, src_line=src_line))
        if c and body_tok is not None and status == 'verify':
            body_close = match_close(toks, body_tok)
            b_lo, b_hi = toks[body_tok].end, toks[body_close].start
            # loops
            loop_toks = []
            for pi, ti in enumerate(s):
                t = toks[ti]
                if ti <= body_tok or ti >= body_close:
                    continue
                if t.kind == 'ident' and t.text in ('loop', 'while', 'for'):
                    if t.text == 'for' and toks[s[pi + 1]].text == '<':
                        continue
                    loop_toks.append(pi)
            for n, ls in c.loops.items():
                if n < 1 or n > len(loop_toks):
                    raise ToolCondition('lost anchor: %s has %d loops, contract names loop %d' % (addr, len(loop_toks), n))
                pi = loop_toks[n - 1]
                # find body `{` of the loop
                r = pi + 1
                in_tok = None
                while True:
                    tt = toks[s[r]]
                    if tt.kind == 'punct' and tt.text in ('(', '['):
                        r = s.index(match_close(toks, s[r])) + 1
                        continue
                    if tt.kind == 'ident' and tt.text == 'in' and in_tok is None:
                        in_tok = s[r]
                    if tt.text == '{':
                        break
                    r += 1
                lb = toks[s[r]].start
                if ls.desugar:
                    # R11: definitional desugaring of `for PAT in EXPR { B }` for an EXPR that is itself an
                    # Iterator (IntoIterator::into_iter is the identity by the blanket impl)
                    if toks[s[pi]].text != 'for' or in_tok is None:
                        raise ToolCondition('%s: @desugar on a non-for loop' % addr)
                    pat = txt[toks[s[pi]].end:toks[in_tok].start].strip()
                    expr = txt[toks[in_tok].end:lb].strip()
                    head = txt[toks[s[pi]].start:lb]
                    nm = ls.desugar
                    inserts.append((toks[s[pi]].start,
                                    Seg(keep_newlines(head, '{ let mut %s = %s; ' % (nm, expr)), 'src'), lb))
                    for pf in c.proofs:
                        if pf.mode == 'loopinit' and int(pf.regex) == n:
                            inserts.append((lb, Seg('\n' + pf.text.rstrip('\n') + '\n', 'proof', oid=pf.oid,
                                                    tags=tuple(pf.tags), ckind='proof', addr=addr), lb))
                    inserts.append((lb, Seg(' loop ', 'src'), lb))
                    self.rules.hit('R11')
                    close_tok = match_close(toks, s[r])
                    desugar_open = [(lb, Seg('{', 'src'), lb + 1)]
                    for pf in c.proofs:
                        if pf.mode == 'loophead' and int(pf.regex) == n:
                            desugar_open.append((lb + 1, Seg('\n' + pf.text.rstrip('\n') + '\n', 'proof', oid=pf.oid,
                                                             tags=tuple(pf.tags), ckind='proof', addr=addr), lb + 1))
                    desugar_open.append((lb + 1, Seg(' match %s.next() { None => break, Some(%s) => {' % (nm, pat), 'src'), lb + 1))
                    for pf in c.proofs:
                        if pf.mode == 'loopbody' and int(pf.regex) == n:
                            desugar_open.append((lb + 1, Seg('\n' + pf.text.rstrip('\n') + '\n', 'proof', oid=pf.oid,
                                                             tags=tuple(pf.tags), ckind='proof', addr=addr), lb + 1))
                    desugar_close = (toks[close_tok].start, Seg('} } }', 'src'), toks[close_tok].end)
                else:
                    desugar_open = desugar_close = None
                    close_tok = match_close(toks, s[r])
                loopend_segs = []
                for pf in c.proofs:
                    if pf.mode == 'loopend' and int(pf.regex) == n:
                        loopend_segs.append((toks[close_tok].end, Seg('\n' + pf.text.rstrip('\n') + '\n', 'proof', oid=pf.oid,
                                             tags=tuple(pf.tags), ckind='proof', addr=addr), toks[close_tok].end))
                if not ls.desugar:
                    for pf in c.proofs:
                        if pf.mode in ('loophead', 'loopbody') and int(pf.regex) == n:
                            inserts.append((lb + 1, Seg('\n' + pf.text.rstrip('\n') + '\n', 'proof', oid=pf.oid,
                                                        tags=tuple(pf.tags), ckind='proof', addr=addr), lb + 1))
                if ls.binder:
                    if toks[s[pi]].text != 'for' or in_tok is None:
                        raise ToolCondition('%s: @binder on a non-for loop' % addr)
                    inserts.append((toks[in_tok].end, Seg(' %s:' % ls.binder, 'gen'), toks[in_tok].end))
                lsegs = []
                groups = [('invariant_except_break', 'invariant_except_break'), ('invariant', 'invariant'),
                          ('loop_ensures', 'ensures')]
                for kind, kw in groups:
                    cls = [cl for cl in ls.clauses if cl.kind == kind]
                    if cls:
                        lsegs.append(Seg('\n    %s\n' % kw, 'gen'))
                        for cl in cls:
                            lsegs.append(self.clause_seg(cl, addr))
                if ls.decreases:
                    lsegs.append(Seg('\n    decreases %s\n' % ls.decreases, 'clause', oid='%s#loop%d-decreases' % (short(addr), n),
                                     tags=tuple(c.tags), ckind='decreases', addr=addr))
                lsegs.append(Seg('\n', 'gen'))
                for sg in lsegs:
                    inserts.append((lb, sg, lb))
                if desugar_open:
                    inserts.extend(desugar_open)
                    inserts.append(desugar_close)
                inserts.extend(loopend_segs)
                if desugar_open:
                    # the iterator lives exactly as long as the `for` loop did (plus the ghost text after it)
                    inserts.append((toks[close_tok].end, Seg(' }', 'src'), toks[close_tok].end))
            # ownership conditions checked on the source text (Rust drop rules): a named binding declared
            # by `let VAR = <decl>` must still be alive (same or enclosing block, not moved, not dropped)
            # at the statement matched by `until`
            for (var, decl_re, until_re, oid, tags, hsrc) in c.holds:
                body_txt = txt[b_lo:b_hi]
                ok, why = check_holds(body_txt, var, decl_re, until_re)
                self.syntactic.append(dict(oid=oid, tags=tags, addr=addr, ok=ok, why=why, src_file=rel, src_line=src_line))
            # dual ownership condition (@nohandle): no local binding initialised by an expression matching <init> (a clone of a
            # file handle) is still alive at the statement matched by <at> (Rust scoping: its block is still open and it has not been moved)
            for (init_re, at_re, oid, tags) in c.nohandle:
                ok, why = check_nohandle(txt[b_lo:b_hi], init_re, at_re)
                self.syntactic.append(dict(oid=oid, tags=tags, addr=addr, ok=ok, why=why, src_file=rel, src_line=src_line))
            # ordering condition (@order): statement A occurs (once) before statement B (once) in the body -- e.g. the in-memory queue
            # (which owns the file handles) is updated before the GC pass looks at the reference counts
            for (a_re, b_re, oid, tags) in c.order:
                body_txt = re.sub(r'//[^\n]*', lambda m: ' ' * len(m.group(0)), txt[b_lo:b_hi])
                ma, mb = list(re.finditer(a_re, body_txt)), list(re.finditer(b_re, body_txt))
                if len(ma) != 1 or len(mb) != 1:
                    ok, why = False, '/%s/ occurs %d times, /%s/ occurs %d times' % (a_re, len(ma), b_re, len(mb))
                else:
                    ok = ma[0].start() < mb[0].start()
                    why = '' if ok else '/%s/ no longer precedes /%s/' % (a_re, b_re)
                self.syntactic.append(dict(oid=oid, tags=tags, addr=addr, ok=ok, why=why, src_file=rel, src_line=src_line))
            # the named call must be made unconditionally: exactly once, in the top-level block of the body
            for (call_re, oid, tags) in c.mustcall:
                body_txt = txt[b_lo:b_hi]
                ms = list(re.finditer(call_re, body_txt))
                ok, why = True, ''
                if len(ms) != 1:
                    ok, why = False, '/%s/ occurs %d times' % (call_re, len(ms))
                else:
                    depth = 0
                    for t in lex(body_txt[:ms[0].start()]):
                        if t.kind == 'punct' and t.text == '{':
                            depth += 1
                        elif t.kind == 'punct' and t.text == '}':
                            depth -= 1
                    if depth != 0:
                        ok, why = False, '/%s/ is nested in a block (conditional?) of the body' % call_re
                self.syntactic.append(dict(oid=oid, tags=tags, addr=addr, ok=ok, why=why, src_file=rel, src_line=src_line))
            for (b_re, oid, tags) in c.contains:
                # structural obligation: the function still contains the call (position is not checked)
                body_txt = re.sub(r'//[^\n]*', '', txt[b_lo:b_hi])
                ok = bool(re.search(b_re, body_txt))
                self.syntactic.append(dict(oid=oid, tags=tags, addr=addr, ok=ok, why=('' if ok else '/%s/ no longer occurs in the function' % b_re),
                                           src_file=rel, src_line=src_line))
            # R15: closure headers get parameter types, a named result and requires/ensures; the closure
            # body is copied verbatim inside braces
            for cs in c.closures:
                ms = list(re.finditer(cs.regex, txt[b_lo:b_hi], re.S))
                if len(ms) != 1 or ms[0].lastindex != 2:
                    raise ToolCondition('lost anchor: %s: closure /%s/ matches %d times (contract %s)' % (addr, cs.regex, len(ms), cs.src))
                m = ms[0]
                orig_params = [x.strip().split(':')[0].strip() for x in m.group(1).split(',') if x.strip()]
                new_params = [x.strip().split(':')[0].strip() for x in split_top_commas(cs.params) if x.strip()]
                if orig_params != new_params:
                    raise ToolCondition('%s: closure parameters %s do not match contract %s' % (addr, orig_params, new_params))
                a, b = b_lo + m.start(), b_lo + m.end()
                head = '|%s| -> (%s)' % (cs.params, cs.ret)
                spec = ''
                if cs.requires:
                    spec += ' requires ' + ', '.join(cs.requires) + ','
                if cs.ensures:
                    spec += ' ensures ' + ', '.join(cs.ensures) + ','
                pre = txt[a:b_lo + m.start(2)]
                if not re.match(r'^(move\s+)?\|[^|]*\|\s*$', pre):
                    raise ToolCondition('%s: closure regex must start at the closure bars: %r' % (addr, pre))
                mv = 'move ' if pre.startswith('move') else ''
                inserts.append((a, Seg(keep_newlines(pre, mv + head), 'src'), b_lo + m.start(2)))
                inserts.append((b_lo + m.start(2), Seg(spec + ' {', 'clause', oid=cs.oid, tags=tuple(cs.tags), ckind='closure', addr=addr), b_lo + m.start(2)))
                inserts.append((b, Seg(' }', 'src'), b))
                self.rules.hit('R15')
            if canary_mode == 'start' and status == 'verify':
                inserts.append((b_lo, Seg('\n proof { assert(false); }\n', 'clause', oid='CANARY:' + short(addr), tags=(), ckind='assert', addr=addr), b_lo))
                self.canary_fns.add(addr)
            # proof splices
            for pf in c.proofs:
                seg = Seg('\n' + pf.text.rstrip('\n') + '\n', 'proof', oid=pf.oid, tags=tuple(pf.tags), ckind='proof', addr=addr)
                if pf.mode == 'start':
                    inserts.append((b_lo, seg, b_lo)); continue
                if pf.mode in ('loophead', 'loopbody', 'loopend', 'loopinit'):
                    if int(pf.regex) not in c.loops:
                        raise ToolCondition('%s: @proof %s %s without @loop' % (addr, pf.mode, pf.regex))
                    continue
                ms = list(re.finditer(pf.regex, txt[b_lo:b_hi]))
                if len(ms) != 1:
                    if getattr(self, 'lenient', False):
                        # second attempt of check.py (DESIGN 13.14): the hint is dropped and recorded; every failure inside this function is then
                        # "undecided", the other functions and the structural obligations are judged as usual
                        self.dropped_hints.setdefault(addr.split('#')[0], []).append('%s /%s/ matches %d times' % (pf.oid, pf.regex, len(ms)))
                        continue
                    raise ToolCondition('lost anchor: %s: /%s/ matches %d times (contract %s)' % (addr, pf.regex, len(ms), pf.src))
                m = ms[0]
                if pf.mode == 'after':
                    off = b_lo + m.end()
                    inserts.append((off, seg, off))
                elif pf.mode == 'before':
                    off = b_lo + m.start()
                    inserts.append((off, seg, off))
                elif pf.mode == 'tail':
                    # R25: the tail expression of the body (it starts where the regex matches) is bound to `verif_tail`, the proof text
                    # follows, and `verif_tail` becomes the tail expression: `E` -> `let verif_tail = E; proof { .. } verif_tail`
                    off = b_lo + m.start()
                    inserts.append((off, Seg('let verif_tail = ', 'src'), off))
                    end = b_hi
                    while end > off and txt[end - 1].isspace():
                        end -= 1
                    if txt[end - 1] == ';':
                        raise ToolCondition('%s: @proof tail: the body does not end in a tail expression' % addr)
                    inserts.append((end, Seg(';', 'src'), end))
                    inserts.append((end, seg, end))
                    inserts.append((end, Seg('        verif_tail\n', 'src'), end))
                    self.rules.hit('R25')
                else:
                    raise ToolCondition('%s: proof mode %s unsupported' % (addr, pf.mode))
        elif c and (c.loops or c.proofs) and status == 'verify':
            raise ToolCondition('%s: loop/proof contract on a bodyless function' % addr)
        # assemble
        order = sorted(range(len(inserts)), key=lambda i: (inserts[i][0], 1 if inserts[i][2] > inserts[i][0] else 0, i))
        segs = []
        cur = 0
        base_line = src_line

        def src_seg(a, b):
            if b > a:
                segs.append(Seg(txt[a:b], 'src', src_file=rel, src_line=base_line + txt.count('\n', 0, a), addr=addr))
        for i in order:
            off, sg, rend = inserts[i]
            if off < cur:
                raise ToolCondition('%s: overlapping splices' % addr)
            src_seg(cur, off)
            if sg.origin == 'src':
                sg.src_file = rel; sg.src_line = base_line + txt.count('\n', 0, off); sg.addr = addr
            segs.append(sg)
            cur = rend
        src_seg(cur, len(txt))
        return segs

    def clause_seg(self, cl: Clause, addr) -> Seg:
        text = cl.text.rstrip().rstrip(',')
        return Seg('        %s,\n' % text, 'clause', oid=cl.oid, tags=tuple(cl.tags), ckind=cl.kind, addr=addr)

    # ------------------------------------------------------------------ finish
    def finish(self):
        # generated From impls for #[from]
        if self.from_impls:
            pass
        out = []
        line = 1
        linemap = []      # per generated line: dict
        cur_line_origin = None
        clause_ranges = []   # (first,last,oid,tags,kind,addr)
        fn_ranges = []
        seg_first_line = []
        for sg in self.segs:
            first = line
            seg_first_line.append(first)
            nl = sg.text.count('\n')
            # origin for each line that *starts* inside this segment, plus the current line if not yet owned
            for j in range(nl + 1):
                gl = line + j
                while len(linemap) < gl:
                    linemap.append(None)
                if j > 0 or linemap[gl - 1] is None or (sg.origin in ('clause', 'proof') and sg.text.strip()):
                    if sg.origin == 'src' or sg.origin == 'spec':
                        linemap[gl - 1] = {'o': sg.origin, 'f': sg.src_file, 'l': sg.src_line + j, 'fn': sg.addr}
                    elif sg.origin in ('clause', 'proof'):
                        linemap[gl - 1] = {'o': sg.origin, 'id': sg.oid, 'fn': sg.addr}
                    else:
                        linemap[gl - 1] = {'o': 'gen'}
            if sg.origin in ('clause', 'proof') and sg.text.strip():
                # lines that contain non-ws text of this segment
                lead = len(sg.text) - len(sg.text.lstrip('\n'))
                lead_nl = sg.text[:lead].count('\n') if lead else 0
                body_nl = sg.text.strip('\n').count('\n')
                f = line + (len(sg.text) - len(sg.text.lstrip('\n')))
                clause_ranges.append((f, f + body_nl, sg.oid, list(sg.tags), sg.ckind, sg.addr))
            out.append(sg.text)
            line += nl
        for fi in self.fns:
            if hasattr(fi, '_seg_range'):
                a, b = fi._seg_range
                if b > a:
                    fi.gen_first = seg_first_line[a]
                    fi.gen_last = seg_first_line[b - 1] + self.segs[b - 1].text.count('\n')
        text = ''.join(out)
        r = GenResult(text=text, linemap=linemap, clause_ranges=clause_ranges, fns=self.fns,
                      rule_hits=dict(self.rules.hits), sha=self.sha, contracts=self.contracts)
        r.syntactic = self.syntactic
        return r


def trait_key(t):
    t = re.sub(r"'[A-Za-z_]+\s*,?\s*", '', t)
    t = re.sub(r'<\s*>', '', t)
    return re.sub(r'\s+', '', t)


def check_holds(body: str, var: str, decl_re: str, until_re: str):
    toks = lex(body)
    decl = [m for m in re.finditer(r'let\s+(mut\s+)?%s\s*(:[^=]*)?=\s*%s' % (re.escape(var), decl_re), body)]
    if len(decl) != 1:
        return False, 'no (unique) binding `let %s = %s`' % (var, decl_re)
    unt = [m for m in re.finditer(until_re, body)]
    if len(unt) != 1:
        return False, '`until` statement /%s/ matches %d times' % (until_re, len(unt))
    a, b = decl[0].end(), unt[0].start()
    if b < a:
        return False, 'the binding is declared after the statement it must cover'
    depth = 0
    for t in toks:
        if t.start < a or t.start >= b:
            continue
        if t.kind == 'punct' and t.text == '{':
            depth += 1
        elif t.kind == 'punct' and t.text == '}':
            depth -= 1
            if depth < 0:
                return False, 'the block declaring `%s` ends before the statement' % var
        elif t.kind == 'ident' and t.text == var:
            return False, '`%s` is used (moved or dropped?) before the statement' % var
    return True, ''


def check_nohandle(body: str, init_re: str, at_re: str):
    """no `let [mut] NAME [: T] = <init>;` whose initialiser matches init_re may be alive at the statement matched by at_re.
    Alive = declared before it, the declaring block still open there, and NAME not used by value (moved / dropped) in between.
    A lost `at` anchor is reported as failure of the obligation's premise by the caller's @mustcall twin; here it is a pass."""
    body = re.sub(r'//[^\n]*', lambda m: ' ' * len(m.group(0)), body)
    at = [m for m in re.finditer(at_re, body)]
    if len(at) != 1:
        return True, ''
    b = at[0].start()
    toks = [t for t in lex(body) if t.kind not in ('ws', 'comment')]
    for m in re.finditer(r'\blet\s+(?:mut\s+)?([a-z_][A-Za-z0-9_]*)\s*(?::[^=;]*)?=\s*([^;]*);', body):
        name, init = m.group(1), m.group(2)
        if m.end() > b or not re.search(init_re, init):
            continue
        depth, alive = 0, True
        prev = None
        for i, t in enumerate(toks):
            if t.start < m.end() or t.start >= b:
                prev = t if t.start < m.end() else prev
                if t.start >= b:
                    break
                continue
            if t.kind == 'punct' and t.text == '{':
                depth += 1
            elif t.kind == 'punct' and t.text == '}':
                depth -= 1
                if depth < 0:
                    alive = False; break
            elif t.kind == 'ident' and t.text == name:
                nxt = toks[i + 1] if i + 1 < len(toks) else None
                by_ref = prev is not None and prev.text in ('&', 'mut', '.', '*')
                place = nxt is not None and nxt.text in ('.', '=')
                if not by_ref and not place:
                    alive = False; break      # used by value: moved or dropped (lenient: never an alarm for a moved handle)
            prev = t
        if alive:
            return False, '`%s` (initialised by `%s`) is still alive at /%s/: it keeps a WAL file referenced during the GC pass' % (name, init.strip()[:60], at_re)
    return True, ''


def short(addr):
    return addr.split('::', 1)[1] if '::' in addr else addr


@dataclass
class GenResult:
    text: str
    linemap: list
    clause_ranges: list
    fns: List[FnInfo]
    rule_hits: Dict[str, int]
    sha: Dict[str, str]
    contracts: Dict[str, Contract]


class LineIndex:
    def __init__(self, src):
        self.starts = [0]
        for m in re.finditer('\n', src):
            self.starts.append(m.end())

    def __call__(self, off):
        import bisect
        return bisect.bisect_right(self.starts, off)


def split_top_commas(s: str) -> List[str]:
    toks = lex(s)
    parts, depth, last = [], 0, 0
    for t in toks:
        if t.kind == 'punct':
            if t.text in ('(', '[', '{'):
                depth += 1
            elif t.text in (')', ']', '}'):
                depth -= 1
            elif t.text == ',' and depth == 0:
                parts.append(s[last:t.start]); last = t.end
    parts.append(s[last:])
    return parts


FROM_TEMPLATE = '''
// R2: what `#[from]` of thiserror generates
impl vstd::std_specs::convert::FromSpecImpl<{ty}> for {enum} {{
    open spec fn obeys_from_spec() -> bool {{ true }}
    open spec fn from_spec(e: {ty}) -> Self {{ {enum}::{variant}(e) }}
}}
impl From<{ty}> for {enum} {{
    fn from(e: {ty}) -> Self {{ {enum}::{variant}(e) }}
}}
'''

PRELUDE = '''// GENERATED by /verif/lib/gen.py from /repo/src -- do not edit.
#![feature(allocator_api)]
#![allow(unused_imports, dead_code, unused_variables, unused_mut, unused_assignments, non_snake_case, unreachable_code)]
#![allow(clippy::all)]
use vstd::prelude::*;
'''


def write_outputs(res: GenResult, outdir: str, name='gen_all'):
    os.makedirs(outdir, exist_ok=True)
    p = os.path.join(outdir, name + '.rs')
    with open(p, 'w') as f:
        f.write(res.text)
    with open(os.path.join(outdir, name + '.map.json'), 'w') as f:
        json.dump({'lines': res.linemap, 'clauses': res.clause_ranges,
                   'fns': [dict(addr=x.addr, status=x.status, file=x.src_file, line=x.src_line, tags=x.tags,
                                bounded=x.bounded, first=x.gen_first, last=x.gen_last) for x in res.fns],
                   'rules': res.rule_hits, 'sha256': res.sha}, f)
    return p


if __name__ == '__main__':
    import sys
    g = Generator('/repo', '/verif')
    try:
        res = g.generate()
    except (ToolCondition, ContractError) as e:
        print('TOOL-CONDITION:', e)
        sys.exit(2)
    p = write_outputs(res, '/verif/build')
    print(p, len(res.text.split('\n')), 'lines; rules', res.rule_hits)
