"""Per-property metadata: claimed level, what is not decided, which Kani harnesses belong to it."""

FS = ('FS layer: RollingWriter::{write,persist,forward,num_bytes_remaining_in_block,current_file} are VERIFIED against the BlockWrite contract over ghost state and the ASSUMED contracts of the '
      'BufWriter<File> stand-in vshim::BufFile (R17: with_capacity/write_all/flush/sync_data/seek; content/flushed/synced ghost lengths) plus one named assumption A-stream-bound (fewer than 2^62 bytes through one writer); '
      'RollingReader::{open,next_block,block,into_writer} (into_writer through R27 and the assumed contract of <File as Seek>::seek: the writer continues in the file the reader stood in, with the same tracker, at the start of the block the reader stood on), read_block (only the error kind UnexpectedEof becomes "no more block"), FileTracker::{take_first_unused,first,count,next,inc,new} (next/inc over the R26 shim for BTreeSet::range(..).next()), Directory::{gc,has_files_that_can_be_deleted,first_file_number}, {Frame,Record}Writer::directory are VERIFIED against the ghost FS model of spec/vfs.rs (RollingReader::open over the read_exact stand-in R20, its body verified under the name open__verif_impl, DESIGN.md 13.10); '
      'Directory::open is VERIFIED over a ghost model of the directory listing (R29 stand-in for ReadDir; assumed std contracts of DirEntry::{file_type,file_name}, FileType::is_file, OsStr::to_str, Path::to_path_buf): it tracks exactly the regular files with a UTF-8 name of the WAL form, reports every listing error, and creates file 0 only if there is none; still trusted (contracts assumed): Directory::{open_file,sync_directory}, create_file, the read_exact stand-ins (R20), FileTracker::from_file_numbers, FileNumber::can_be_deleted; named assumptions A-file-number-bound (file numbers below 2^63), A-file-count (fewer than 2^37 tracked files: RollingWriter::size, verified, multiplies without overflow), A-file-size (a WAL file holds at most 4096 full blocks) and A-stream-bound, each an explicit `assume` counted by the mechanical scan')

LEMMAS = {
    'C01': ['vspec::lemma_parse_ser_item', 'vspec::lemma_parse_ser_items', 'vspec::lemma_parse_ser_entry', 'vspec::lemma_replay_items_is_append_all', 'vspec::lemma_ser_items_empty', 'vspec::lemma_replay_history', 'vspec::lemma_rec_step_buf_irrelevant', 'vspec::lemma_replay_log_buf_irrelevant', 'vspec::replay_log',
            'vroundtrip::lemma_roundtrip_all'],
    'C05': ['vspec::lemma_split_filter', 'mem::queue::MemQueue::lemma_truncate_mid'],
    'C07': ['vspec::lemma_frame_enc_len', 'vspec::lemma_full_frame_ends_block', 'vspec::enc', 'vspec::lemma_enc_len_bound', 'frame::header::lemma_hdr_roundtrip',
            'vroundtrip::lemma_blocks_of', 'vroundtrip::lemma_read_written_frame', 'vroundtrip::lemma_read_written_record', 'vroundtrip::lemma_roundtrip_all'],
    'C08': ['frame::header::lemma_hdr_roundtrip'],
    'C09': ['vdamage::lemma_damaged_frame', 'vdamage::lemma_skip_frames', 'vdamage::lemma_damaged_record', 'vdamage::lemma_one_damaged_entry', 'vdamage::lemma_replay_log_is_fold', 'vdamage::lemma_one_damaged_entry_replay', 'vdamage::lemma_read_all_intact', 'visol::lemma_replay_isolation', 'visol::lemma_lost_entry_other_queues', 'visol::lemma_truncate_members', 'visol::lemma_items_members', 'visol::lemma_entry_covers', 'visol::lemma_replay_covers', 'visol::lemma_lost_entry_same_queue'],
    'C10': ['vspec::lemma_frame_step_progress', 'vspec::rec_step', 'vspec::lemma_rec_step_progress', 'vfs::lemma_all_blocks_ok', 'vfs::lemma_block_at'],
    'C11': ['vspec::lemma_frame_step_progress', 'vspec::lemma_rec_step_progress', 'vfs::lemma_blocks_below_skip', 'vfs::lemma_blocks_below_step'],
    'C12': ['vspec::lemma_parse_ser_items', 'vspec::lemma_rec_step_progress', 'vtorn::lemma_zeros_end', 'vtorn::lemma_torn_frame', 'vtorn::lemma_torn_record', 'vtorn::lemma_torn_tail', 'vdamage::lemma_read_all_of_prefix', 'vdamage::lemma_torn_tail_replay'],
    'C15': ['vspec::lemma_enc_len_bound', 'vspec::lemma_ser_entry_len'],
    'C16': ['vsum::lemma_wsum_pick', 'vsum::lemma_wsum_insert', 'vsum::lemma_wsum_le', 'vsum::lemma_wsum_eq', 'vsum::lemma_wsum_add', 'vsum::lemma_used_bounds', 'vsum::lemma_used_all_empty',
            'vsum::lemma_payload_split', 'vsum::lemma_used_truncate', 'mem::queues::MemQueues::lemma_used_is_view', 'mem::queue::MemQueue::lemma_size_spec_view'],
    'C18': ['visol::lemma_entry_frame', 'visol::lemma_entry_local', 'visol::lemma_replay_isolation', 'visol::lemma_open_isolation', 'visol::lemma_proj_remove', 'visol::lemma_lost_entry_other_queues', 'vdamage::lemma_replay_log_is_fold'],
    'C04': ['vspec::lemma_replay_items_is_append_all', 'multi_record_log::lemma_covers', 'multi_record_log::lemma_wal_after_positions_push'],
}

PROPS = {
    'C01': dict(
        level='proof',
        explain='END TO END (O-C01-open-replay): open(dir) returns Ok(log) only with log.view() == open_spec(dir) = replay_log over the full blocks of the listed WAL files (ghost FS model), i.e. the replay, by the rule replay_entry, '
                'of exactly the entries the reading rule rec_step delivers from block 0 on, damaged frames and undecodable entries skipped (loop invariant I-C01-log; Directory::open, RollingReader::open and read_record expose what the invariant needs). '
                'Replay-loop arms proved equal to the replay rule replay_entry (O-C01-replay assertions, loop invariant I-C01-replay-items); '
                'every mutator proved to write exactly the entry whose replay on the pre-state gives the post-state (O-C01-commute-*, O-C12-one); '
                'entry codec proved inverse for all four kinds (lemma_parse_ser_entry, lemma_parse_ser_items); reader hands its exact cursor to the writer (O-C01-cursor).',
        kani_quick=[], kani_thorough=['E-dmg', 'E-hist-deep'],
        trusted=[FS, 'MultiRecord::{serialize,serialize_with_pos} are VERIFIED over the assumed contracts of bytes::Buf (R10: a cursor over a byte string; chunk() a non-empty prefix while bytes remain) and of (start..).zip(it) (R19); the payload iterator is assumed to obey vstd\'s iterator laws and to be finite (iter_ok, a precondition of append_records)', 'MemQueues::empty_queues (assumed: yields exactly the empty queues, each once)'],
        not_decided=['that GC never deletes a file still needed (Arc strong counts, see C06)', 'BufWriter flush on drop (std)',
                     'directory listing', 'the glue between the spec-level lemmas (L-C01 lemma_replay_history, L-C07 lemma_roundtrip_all) and the file system: that the blocks open() reads are the bytes the writer was handed (trusted FS layer)'],
    ),
    'C03': dict(
        level='proof',
        explain='Ordering obligations on the ghost durable lengths of the block writer: create/delete return with synced == wal (O-C03-cd-*), '
                'persist(a) satisfies the BlockWrite::persist contract (O-C03-persist), append/truncate satisfy the policy (O-C03-policy-*), '
                'and at the call directory().gc() the whole WAL is synced (O-C03-gc, spliced assertion). '
                'The block writer itself is verified: RollingWriter::persist implements BlockWrite::persist over the ghost lengths of the BufWriter<File> stand-in (flush => flushed == written; fdatasync => synced == flushed), '
                'and at a file roll-over the file being left is proved fully flushed and fsynced before its handle is dropped (P-C03-rollover-ghost; wr_wf: every file left behind is durable); '
                'the directory fsync is still called on both paths (O-C03-*-dir-sync, structural).',
        kani_quick=[], kani_thorough=['E-hist'],
        trusted=[FS, 'PersistState::update_persisted / From<PersistPolicy> are VERIFIED (Instant::now() + d through the stand-in R21, which has no contract)'],
        not_decided=['that recovery from the synced/flushed image yields a state at least as recent (needs a crash model: C02)',
                     'what fsync of the directory achieves (no ghost effect modelled; only its presence is checked)',
                     'the state of the file after a FAILED write (the code keeps an advanced offset)'],
    ),
    'C04': dict(
        level='proof',
        explain='next position is monotone under every live operation (append: O-C05-append with pos >= next; truncate: QView::truncate never lowers next), '
                'explicit stale positions are rejected (O-C04-past, O-C05-append-past), replay restores the next position (O-C09-ack, P-C01-replay-pos). '
                'GC: record_empty_queues_position is verified to write a RecordPosition entry (name, next position) for EVERY empty queue and to fsync if it wrote anything (O-C04-gc-positions, O-repq-sync); '
                'the WAL is synced before directory().gc() (O-C03-gc); gc() is called from nowhere else (O-gc-callsite); the current file stays pinned across the pass (O-C01-gc-pin).',
        kani_quick=[], kani_thorough=['E-hist'],
        trusted=[FS, 'MemQueues::empty_queues (assumed: yields exactly the empty queues, each once)'],
        not_decided=['crash variants (C02)'],
    ),
    'C05': dict(
        level='proof',
        explain='MemQueue/MemQueues/MultiRecordLog operations proved against the sequential queue-map spec (QView, LogView) written from the property text, '
                'over the whole view, including the wrapper append_record (= append_records of a one-element batch, @sameas) and position_to_idx (over the assumed std contract of binary_search_by_key, cross-checked bounded by K-p2i); RollingBuffer::get_range is VERIFIED for every bound kind and every ring layout (O-C05-getrange: left slice, right slice, re-assembly across the wrap; rule R22); MemQueue::range, MemQueues::range and MultiRecordLog::range are VERIFIED (O-C05-range, O-C05-mqs-range, O-C05-api-range): for every range and every queue the iterator yields exactly the retained records whose position lies in the range -- a contiguous run of the view, in order, byte for byte, and no record outside the run is in range -- over the assumed std contract of the `(a..b).take_while(p).map(f)` adapter chain (R24) and of RangeBounds::{start_bound,contains} (R22); the Kani harnesses K-range-*, K-getrange-* stay in the thorough tier as bounded cross-checks of those assumed contracts on the real code. summary (MemQueue / MemQueues / MultiRecordLog) and list_queues are VERIFIED: the summary has exactly the queues of the view with their start and last positions (O-C05-summary, loop over the vstd contract of HashMap::iter, R13); list_queues yields exactly the queue names, each once (O-C05-list, R28 shim for Iterator::map over the vstd contract of HashMap::keys).',
        kani_quick=[], kani_thorough=['K-p2i'] + ['K-getrange-r%d' % r for r in range(4)] + ['K-range-%s' % k for k in ('ii', 'ie', 'iu', 'ei', 'ee', 'eu', 'ui', 'ue', 'uu')] + ['E-hist-deep'],
        trusted=['RangeBounds::{start_bound,end_bound} through a generic bound return vstd\'s spec value (R22 shims) and VecDeque::as_slices().0 ++ .1 == contents (assumed std contracts; K-getrange cross-checks both on the real code, bounded)', '<[T]>::binary_search_by_key, iter::once (assumed std contracts; K-p2i cross-checks the former, bounded)', '(a..b).take_while(p).map(f) yields f(a..k) up to the first index p rejects (R24 shim, assumed std contract; K-range-* cross-check it on the real code, bounded)',
                 'MultiRecord::{serialize,serialize_with_pos} are VERIFIED over the assumed contracts of bytes::Buf (R10: a cursor over a byte string; chunk() a non-empty prefix while bytes remain) and of (start..).zip(it) (R19); the payload iterator is assumed to obey vstd\'s iterator laws and to be finite (iter_ok, a precondition of append_records)', 'HashMap::get_mut (assumed std contract)', 'RollingBuffer::extend'],
        not_decided=['QueueSummary.file_number (MemQueue::first_file_number, a filter_map chain over Arc handles) is not specified'],
    ),
    'C06': dict(
        level='other',
        explain='Bounded only for the end-to-end statement. The property is about Arc::strong_count reaching 1 (live clones across the heap): Verus treats Arc<T> as T, Kani contracts cannot quantify over the heap. '
                'Checked: (1) Verus, handle PLACEMENT for all inputs: append_record stores the handle of the file being written in the new last record, clears the previous last record\'s handle iff it names the same file, leaves all others alone (O-C06-place-append); '
                'truncate_head keeps exactly the handles of the retained records (O-C06-place-trunc); the clone of the current file is held across the GC pass (O-C01-gc-pin, syntactic ownership check). '
                'FileTracker::take_first_unused hands out only the OLDEST tracked file and never the last remaining one (O-C06-take-oldest); Directory::gc removes a strict prefix of the tracked files and keeps at least one (O-C06-gc-prefix) '
                '-- both verified against assumed contracts of BTreeSet::{first,pop_first}; the GC pass is invoked unconditionally by truncate/delete_queue/open (O-C06-gc-invoked-*, syntactic). '
                '(2) Kani K-handles, BOUNDED (fixed 3-append / 2-file shape, symbolic truncate position): a file handle can_be_deleted() iff no retained record was appended with it. '
                '(3) E-gate, BOUNDED, native exhaustive enumeration (not symbolic; CBMC exceeds 12 GB on any BTreeSet<FileNumber>): for trackers of 1..=5 files and every subset of pinned files, the GC gate has_files_that_can_be_deleted() is true exactly when a GC pass removes a file, and the pass removes exactly the unpinned prefix short of the last file. '
                '(4) E-c06, BOUNDED, native exhaustive enumeration of HISTORIES against the real MultiRecordLog on real (4-block) WAL files: two queues, every history of at most 4 operations out of 11 (small / block-spilling append, truncate all / half, delete+recreate, reopen; 16104 histories): after every truncate / delete / open the directory is exactly the contiguous run of tracked files, holds no file older than both the oldest retained record and the file being written when the call began, and disk_used_bytes is their total size. '
                'Structural obligations pin the ownership facts no contract can state: O-C06-handle-holders (only RecordMeta, the reader / writer and the tracker hold a FileNumber), O-C06-no-stray-handle-* (no local handle alive at the GC pass), O-C06-gc-after-release-* (the in-memory update precedes the GC pass).',
        kani_quick=['K-handles', 'E-gate', 'E-c06'], kani_thorough=['E-hist'],
        trusted=['everything outside the harness'],
        not_decided=['that can_be_deleted() is true exactly when no queue retains a record of the file (Arc strong counts; bounded K-handles only)', 'the directory listing itself', 'disk_used_bytes == tracked files x 128 MiB is verified (resource_usage O-C06-disk-used over RollingWriter::size O-rwr-size); that the files on disk have that size is not'],
    ),
    'C07': dict(
        level='proof',
        explain='write_frame / write_record proved to emit exactly frame_enc / enc at every stream position and payload length (O-C15-frame, O-C15-record); '
                'read_frame / go_next proved to implement frame_step / rec_step on any block content (O-C08-step, O-C12-deliver); header codec inverse (lemma_hdr_roundtrip, K-hdr); '
                'no frame crosses a block (precondition of BlockWrite::write discharged at every call). '
                'Composition L-C07 (spec/vroundtrip.rs, lemma_roundtrip_all): for every stream offset and every sequence of entries of any sizes, reading (rec_step) what was written (enc) '
                'returns exactly the entries, in order, and leaves the reader exactly behind them.',
        kani_quick=['K-hdr'], kani_thorough=['E-dmg'],
        trusted=[FS, 'crc32 uninterpreted'],
        not_decided=['file roll-over (RollingWriter::write): the mapping byte stream <-> blocks of successive files is trusted'],
    ),
    'C08': dict(
        level='proof',
        explain='The state open returns is open_spec(dir): built ONLY from entries assembled out of CRC-valid frames (O-C01-open-replay over rec_step / frame_step). '
                'Mechanism level: a frame is delivered only if its CRC matches the stored one at the parse cursor (O-C08-step vs frame_step), undecodable/over-long frames quarantine the block, '
                'any bad frame abandons the entry being assembled (O-C12-deliver vs rec_step), entry and batch structure re-validated (O-de-spec vs parse_entry, O-C12-validate), '
                'queue invariant (strictly increasing positions) preserved by every replay operation.',
        kani_quick=['K-hdr', 'E-dmg'], kani_thorough=[],
        trusted=[FS, 'crc32 uninterpreted ("genuine" = assembled only from CRC-valid frames)'],
        not_decided=['relating a CRC-valid frame to the place it was written at: finding F5 (known_findings.txt, DESIGN 13.4c) -- a frame overwritten by a copy of another valid frame is delivered as data; the bounded enumeration E-dmg (part of this check) reports it as KNOWN-FINDING'],
    ),
    'C09': dict(
        level='proof',
        explain='open reports Corruption ONLY where the replay rule does (O-C09-open-corruption: Err(Corruption) ==> open_spec(dir) is None), and otherwise returns the replay of every entry the reading rule delivers (O-C01-open-replay): a skipped frame costs exactly the entry it belongs to in replay_log. '
                'Composition L-C09 (spec/vdamage.rs, lemma_one_damaged_entry / _replay): for every stream offset, every sequence of entries and every frame of every entry, damage confined to the checksum / payload bytes of that ONE frame (detected by the CRC) makes recovery deliver exactly the other entries, whole and in order, and compute the replay of exactly those (replay_log == replay_bytes(entries.remove(j))). '
                'Mechanism level: on CRC mismatch the cursor advances by exactly 7+len and the block is kept (frame_step Corrupt arm, O-C08-step); '
                'replay tolerance: ack_position implements log_ack (O-C09-ack), gaps in positions accepted (O-C05-append), unknown DeleteQueue ignored (P-C01-replay-delete).',
        kani_quick=[], kani_thorough=['E-dmg'],
        trusted=[FS], not_decided=['that open SUCCEEDS when one entry of a valid history is lost (the replay rule rejects an entry whose position is in the past): bounded, E-dmg (delete + re-create, truncations, gaps); given success, the history-level statement is proved (spec/visol.rs: lemma_lost_entry_other_queues -- every other queue is recovered exactly; lemma_lost_entry_same_queue -- the hit queue keeps every record the lost entry did not write)'],
    ),
    'C10': dict(
        level='proof',
        explain='Panic freedom and termination of everything above the FS layer, with NO precondition on block contents: every index, slice, unwrap, +,-,*, cast and assert! (R5) in '
                'the reader stack, decoders, replay loop and accessors is a discharged obligation; loops carry decreases clauses. '
                'Directory listing: filename_to_position (str byte reasoning, outside Verus) is decided by CBMC over ALL 24-byte names not to panic (K-fname, K-fname-nb: including names whose byte 4 is not a char boundary) and over all other lengths (K-fname-len).',
        kani_quick=['K-fname-nb', 'K-fname', 'K-fname-len'], kani_thorough=['E-dmg', 'E-hist'],
        trusted=[FS], not_decided=['allocation without bound', 'panic freedom of the std FS calls themselves'],
    ),
    'C11': dict(
        level='proof',
        explain='The replay loop has a decreases clause (reader position, lexicographic); read_record guarantees progress unless it returns Ok(None) or Err(IoError); '
                'at `continue` the error is therefore not an I/O error (O-C11-term). I/O errors leave the reader position unchanged (O-C11-fr-io, O-C11-rr-io). '
                'RollingReader::next_block is verified against the BlockRead contract over the ghost FS model: Ok(true) only for the next block of the concatenation of all tracked files, '
                'Ok(false) only when no tracked file holds another full block, so an I/O error of open_file/read_block can neither be turned into end-of-log nor skip a file (O-BR-next-*). Directory::open is verified to return Ok only if every entry of the listing was obtained without error (O-C11-open-listing-errors) and propagates file_type() errors with `?`. '
                'The loops of the reader stack (go_next, read_record, read_frame, go_to_next_block_if_necessary) carry decreases clauses tagged C11: no unbounded retry; io::Error::kind / io::ErrorKind are inside Verus (an uninterpreted function of the error), so a retry-on-kind arm is judged, not skipped.',
        kani_quick=[], kani_thorough=['E-fault'],
        trusted=[FS, 'io::Error::kind is an uninterpreted function of the error (assumed contract)'], not_decided=['errors inside the FS primitives open_file / create_file (assumed to be returned as Err); the thorough tier injects one real fault (E-fault: a WAL file that cannot be opened) -- bounded'],
    ),
    'C12': dict(
        level='proof',
        explain='One call = one entry carrying the whole serialized batch (O-C12-one); an entry is delivered only from an intact First..Last run (O-C12-deliver vs rec_step); '
                'the batch is validated before any record of it is applied (O-C12-validate). '
                'Composition L-C12 (spec/vtorn.rs, lemma_torn_tail): for every stream offset, every sequence of entries of any sizes and EVERY cut point (byte granularity), a WAL that reads as zeros behind the cut is recovered as a PREFIX of the entries written, each whole, followed by the end of the log (after at most one Corruption) -- no batch with a hole or a missing tail, nothing from behind the cut; hypothesis: the checksum tells a frame payload from its zero-tailed truncations (the "up to a CRC-32 collision" of the property, shown satisfiable); at the logical level (lemma_torn_tail_replay) open then computes the replay of a prefix of the entries written.',
        kani_quick=['E-dmg'], kani_thorough=['E-hist'],
        trusted=[FS, 'MultiRecord::{serialize,serialize_with_pos} are VERIFIED over the assumed contracts of bytes::Buf (R10: a cursor over a byte string; chunk() a non-empty prefix while bytes remain) and of (start..).zip(it) (R19); the payload iterator is assumed to obey vstd\'s iterator laws and to be finite (iter_ok, a precondition of append_records)'], not_decided=['in-place damage other than a zero tail (bit flips, garbage): decided per frame by O-C08-step / O-C12-deliver, not composed over histories', 'that a crashed file system presents a zero tail (sequential writes into pre-zeroed files): assumption about the FS, see C02', 'a frame of the batch overwritten by a copy of another valid frame (finding F5, known_findings.txt, DESIGN 13.4c): the batch can come back with a hole; reported as KNOWN-FINDING by E-dmg'],
    ),
    'C13': dict(
        level='proof',
        explain='On AlreadyExists / MissingQueue / Past / retry of last position / empty batch: view, WAL byte stream and durable lengths are unchanged and wal_bytes_written == 0 '
                '(O-C13-create/delete/append/trunc via same_as).',
        kani_quick=[], kani_thorough=['E-hist'], trusted=[FS], not_decided=['restart half follows from the unchanged WAL (C01)'],
    ),
    'C14': dict(
        level='proof',
        explain='Every API postcondition of C05/C13/C15 is proved with no hypothesis on next_persist; persist / persist_on_policy leave view and WAL unchanged (O-C14-*). '
                'A syntactic frame check confirms next_persist is only read inside persist_on_policy.',
        kani_quick=[], kani_thorough=['E-hist'], trusted=[FS, 'BufWriter flush on drop'], not_decided=['clean-restart half: follows from C01 (lemma_replay_history: the per-call obligations O-C01-commute-* / O-C12-one do not mention the policy, so the entries written and their replay are the same under every policy); not restated as a separate obligation'],
    ),
    'C15': dict(
        level='proof',
        explain='write_frame returns pad+7+len and appends exactly those bytes (O-C15-frame); write_record returns enc(..).len() (O-C15-record, loop invariant on the running sum); '
                'each mutator returns wal.len() - old wal.len() including GC bytes (O-C15-api-*, O-C15-gc); 0 exactly on the C13 paths.',
        kani_quick=[], kani_thorough=['E-dmg', 'E-hist'], trusted=[FS + ' (RollingWriter::write appends exactly buf)'],
        not_decided=[],
    ),
    'C16': dict(
        level='proof',
        explain='Per queue: size() == payload bytes + metas * size_of::<RecordMeta>() (O-C16-size, O-C16-size-view), capacity() >= size (O-C16-cap), an emptied queue has no payload bytes (wf). '
                'Whole log: resource_usage() is verified to return memory_used_bytes == used_view(view, c) (O-C16-used), the weighted sum over the abstract state of name bytes + retained payload bytes + c per retained record '
                '(so: at least names + payload, and above them by exactly c per retained record: O-C16-bounds), memory_allocated_bytes >= memory_used_bytes (O-C16-alloc), the names-only baseline when every queue is empty (O-C16-baseline), '
                'and truncate lowers used_view by exactly the evicted payload bytes plus c per evicted record (O-C16-api-trunc, from the view transition and the spec lemma lemma_used_truncate). '
                'The sums are defined order-independently over finite maps (spec/vsum.rs: wsum and its lemmas, proved once); MemQueues::size is verified to return them whatever order the HashMap iterates in (O-C16-mqs-size, lemma_wsum_enumeration).',
        kani_quick=[], kani_thorough=['E-hist'],
        trusted=['std contract of Iterator::map(..).sum() (R31 shim iter_map_sum: the sum of the closure over the items when it fits usize) and of HashMap::iter (vstd: every entry exactly once)',
                 'A-mem-total: the two totals MemQueues::size adds up fit usize (all those bytes live in one address space)',
                 'Vec / VecDeque / String capacity >= len (std)'],
        not_decided=['capacity actually shrinking after a truncation (std shrink_to heuristics)', 'overflow of the two sums (usize; named assumption A-mem-total)'],
    ),
    'C17': dict(
        level='proof',
        explain='filename_to_position decided by CBMC over ALL 24-byte names (fixed width, loops bounded by the constant width, unwinding assertions on: complete, not bounded): '
                'Some(n) iff "wal-" + 20 ASCII digits fitting u64, n = that value (K-fname: byte 4 a char boundary; K-fname-nb: byte 4 a continuation byte -> None without panic); other lengths -> None (K-fname-len); filename() round trip (E-fname-rt: bounded native enumeration; format! does not finish in CBMC). '
                'FS effects: Directory::gc (verified) removes only files popped from the tracker (O-C06-gc-prefix) and names them with filepath(dir, tracked number) (O-C17-remove-path); '
                'structural obligations over the whole crate: remove_file/rename/... occur only in Directory::gc (O-C17-remove-site), files are opened/created only in create_file, Directory::open_file and sync_directory '
                '(O-C17-open-sites), each through filepath(dir, tracked number) (O-C17-create-path, O-C17-open-path). Directory::open is VERIFIED (O-C17-open-listing): over the ghost listing of the directory, the tracker holds exactly the numbers of the entries that are regular files (the entry itself, not a symlink target) whose name is valid UTF-8 and parses as a WAL name -- nothing else in the directory is ever tracked, hence read, written or removed; file 0 is created only when no such entry exists. Ownership invariant tracked_present (part of RollingWriter::wr_wf and RollingReader::rd_wf): every tracked number names a WAL file that Directory::open listed or create_file created (create_new); BlockWrite::write keeps wr_wf also when it FAILS (O-BW-write-wf-kept) -- this is the obligation that failed on the unrepaired tree (finding F4: a number whose file could not be created stayed tracked, and a retried write wrote into a foreign file through a symlink).',
        kani_quick=['K-fname', 'K-fname-nb', 'K-fname-len', 'E-fname-rt'], kani_thorough=['E-hist'],
        trusted=['Kani/CBMC', 'filepath = dir.join(filename()) (Path::join)', 'the link between the Verus contract of filename_to_position (A-f2p: result == parse_wal_name(chars)) and what Kani decides over bytes (ASCII: one byte per char); names longer than 32 bytes are outside K-fname-len', 'std contracts of read_dir / DirEntry / FileType / OsStr (assumed, spec/std_specs.rs)'],
        not_decided=['that the OS listing is what is on disk; concurrent modification of the directory'],
    ),
    'C18': dict(
        level='proof',
        explain='RESTART HALF (L-C18, spec/visol.rs): for ANY sequence of WAL entries, the state of queue k after the replay is the state after replaying only the entries addressed to k (lemma_replay_isolation: frame + locality of the replay rule, by induction over the entries), and therefore what open computes from the blocks of the WAL files shows for k exactly the replay of the entries addressed to k (lemma_open_isolation, over O-C01-open-replay and lemma_replay_log_is_fold) -- whatever the entries of the other queues are (appends, truncations, deletions, GC position records, undecodable entries). LIVE HALF: Whole-map frame postconditions: every MemQueues operation and every API mutator on queue q ensures view == old view.insert(q, .) / .remove(q) / old view; '
                'each replay arm touches only the queue named in the entry (replay_entry).',
        kani_quick=[], kani_thorough=['E-hist'], trusted=[FS], not_decided=['that GC never deletes a file another queue still needs (reference counts: C06) and crash recovery (C02); the replay half itself is proved (L-C18)'],
    ),
}
