"""check <Cxx> [--tier quick|thorough] [--replay <file>]

Regenerates the Verus file from /repo's working tree, discharges every obligation, maps failures to
named obligations and properties, runs the Kani harnesses the property owns, writes evidence/<id>.json.
exit 0: property held on everything checked; exit 1 + `VIOLATION property=<id> replay=<path>`: a named
obligation that carries the property failed; exit 2: tool condition (never an alarm).
"""
import argparse, json, os, re, sys, time, hashlib, subprocess, shutil

HERE = os.path.dirname(os.path.abspath(__file__))
VERIF = os.path.dirname(HERE)
sys.path.insert(0, HERE)
import gen, runner, kani  # noqa: E402
from props import PROPS, LEMMAS  # noqa: E402

REPO = os.environ.get('VERIF_REPO', '/repo')


def load_known():
    findings, fixed = [], []
    p = os.path.join(VERIF, 'known_findings.txt')
    if os.path.exists(p):
        for line in open(p):
            line = line.strip()
            if not line or line.startswith('#'):
                continue
            kind, _, rest = line.partition(':')
            kv = dict(re.findall(r'(\w+)=(\S+)', rest))
            rec = dict(property=kv.get('property'), obligation=kv.get('obligation'), site=kv.get('site'), harness=kv.get('harness'), match=kv.get('match'), text=rest.strip())
            (findings if kind == 'finding' else fixed).append(rec)
    return findings, fixed


def obligations_for(res, prop):
    """all named obligations that carry `prop` in this generated file"""
    obs = {}
    verify_fns = {f.addr: f for f in res.fns}
    for (a, b, oid, tags, ckind, addr) in res.clause_ranges:
        f = verify_fns.get(addr)
        if prop in tags and f is not None:
            obs.setdefault(oid, dict(id=oid, kind=ckind, fn=addr, status=f.status, tags=tags))
    for f in res.fns:
        if f.status == 'verify' and prop in f.tags:
            oid = 'B:%s' % gen.short(f.addr)
            obs.setdefault(oid, dict(id=oid, kind='body-safety', fn=f.addr, status='verify', tags=f.tags))
        for k, (oid, tags) in getattr(f, 'bodytags', {}).items():
            if prop in tags and f.status == 'verify':
                obs.setdefault(oid, dict(id=oid, kind='body-' + k, fn=f.addr, status='verify', tags=tags))
    return obs


def failure_props(f, res):
    tags = set(f.tags)
    if f.kind == 'precondition' and f.detail:
        m = re.search(r'callee clause (\S+) of', f.detail)
        if m:
            for (a, b, oid, t2, ck, addr) in res.clause_ranges:
                if oid == m.group(1):
                    tags |= set(t2)
    # A failing assertion inside a spliced proof block or a failing loop invariant hides what depends on it: Verus assumes the asserted
    # fact afterwards and does not go on to report the postconditions it was there to establish.  Such a failure is therefore attributed to
    # the properties of the postconditions (ensures clauses) of the same function as well.
    if f.kind in ('assertion', 'invariant') and (f.oid.startswith('P-') or f.oid.startswith('I-') or f.oid.startswith('A-')):
        for (a, b, oid, t2, ck, addr) in res.clause_ranges:
            if addr == f.addr and ck == 'ensures':
                tags |= set(t2)
    return tags


def body_similarity(g, res, addr, base_toks):
    """token similarity (0..1) of the current body of function `addr` to the body it had when its contract was admitted"""
    import difflib
    from rustlex import lex as _lex
    owner = next((f for f in res.fns if f.addr == addr and hasattr(f, '_seg_range')), None)
    body = ''.join(sg.text for sg in g.segs[owner._seg_range[0]:owner._seg_range[1]] if sg.origin == 'src') if owner else ''
    cur = [t.text for t in _lex(body) if t.kind not in ('ws', 'comment')]
    return difflib.SequenceMatcher(None, base_toks[addr].split(' '), cur, autojunk=False).ratio()


def split_new_function_failures(g, res, failures):
    """Modularity caveat: a function that did not exist when the contracts were written has no contract; a failure in it, or in a
    function that calls it, cannot be decided (undecided, exit 2 -- not a violation).  Returns (kept, undecided, notes)."""
    try:
        base_fns = set(json.load(open(os.path.join(VERIF, 'contracts', 'baseline.json')))['functions'])
    except Exception:
        return list(failures), [], []
    new_fns = [f for f in res.fns if f.addr not in base_fns and '#canary' not in f.addr and '#callsig' not in f.addr]
    if not new_fns:
        return list(failures), [], []
    names = set(f.addr.rsplit('::', 1)[-1] for f in new_fns)
    keep, undecided, notes = [], [], []
    for v in failures:
        owner = next((f for f in res.fns if f.addr == v.addr and hasattr(f, '_seg_range')), None)
        body = ''.join(sg.text for sg in g.segs[owner._seg_range[0]:owner._seg_range[1]] if sg.origin == 'src') if owner else ''
        if v.addr in [f.addr for f in new_fns] or any(re.search(r'\b%s\s*\(' % re.escape(n), body) for n in names):
            undecided.append(v)
            notes.append('undecided: %s fails in %s, which calls (or is) a function without contract (%s)' % (v.oid, v.addr, ', '.join(sorted(names))))
        else:
            keep.append(v)
    return keep, undecided, notes


def load_base_tokens():
    try:
        return json.load(open(os.path.join(VERIF, 'contracts', 'baseline.json'))).get('fn_tokens', {})
    except Exception:
        return {}


def scan_assumptions(res):
    """mechanical scan of the generated text for everything that is assumed, not proved"""
    text = res.text
    out = {
        'assume(': len(re.findall(r'\bassume\s*\(', text)),
        'admit(': len(re.findall(r'\badmit\s*\(', text)),
        'external_body': len(re.findall(r'external_body', text)),
        'verifier::external]': len(re.findall(r'verifier::external\]', text)),
        'assume_specification': len(re.findall(r'assume_specification', text)),
        'axiom fn': len(re.findall(r'\baxiom fn\b', text)),
        'uninterp spec fn': len(re.findall(r'\buninterp spec fn\b', text)),
        'external_type_specification': len(re.findall(r'external_type_specification', text)),
    }
    return out


def write_replay(prop, f, run, extra=None):
    d = os.path.join(VERIF, 'replays')
    os.makedirs(d, exist_ok=True)
    safe = re.sub(r'[^A-Za-z0-9_.-]+', '_', f.oid)[:80]
    p = os.path.join(d, '%s-%s.json' % (prop, safe))
    rec = dict(property=prop, obligation=f.oid, function=f.addr, kind=f.kind, message=f.message,
               repo_file='src/' + f.src_file if f.src_file else '', repo_line=f.src_line, generated_line=f.gen_line,
               detail=f.detail, verifier='verus', verifier_cmd=run.cmd, verifier_output=f.rendered,
               counterexample=None,
               note='Verus gives no counterexample: no-failing-input-found. Re-run: bin/check %s --replay %s' % (prop, p))
    if extra:
        rec.update(extra)
    with open(p, 'w') as fh:
        json.dump(rec, fh, indent=1)
    return p


# Properties the bounded enumerations can observe (their failures carry these tags): E-hist = short histories against a reference model,
# E-dmg = single-site damage over a family of WAL layouts
FALLBACKS = {
    'E-fault': ('C11',),
    'E-dmg': ('C01', 'C07', 'C08', 'C09', 'C10', 'C12', 'C15'),
    'E-hist': ('C01', 'C03', 'C04', 'C05', 'C06', 'C10', 'C12', 'C13', 'C14', 'C15', 'C16', 'C17', 'C18'),
}


def fallback_enumeration(prop, why):
    """Quick tier, deductive verdict UNDECIDED (a change the verifier cannot follow): run the bounded enumerations against the real code.
    A failing case that contradicts `prop` is a real failing input: it is reported as the violation.  No failing case: the verdict stays
    undecided (a bounded search that finds nothing proves nothing).  Returns (rc, [records])."""
    names = [n for n in ('E-fault', 'E-dmg', 'E-hist') if prop in FALLBACKS[n]]
    if not names or os.environ.get('VERIF_NO_FALLBACK'):
        return 2, []
    print('NOTE: deductive verdict undecided (%s); running the bounded fall-back %s (enumeration against the real code)' % (why[:200], ' + '.join(names)))
    out = []
    for n in names:
        try:
            recs = kani.run_harnesses(REPO, VERIF, [n])
        except gen.ToolCondition as e:
            print('TOOL-CONDITION (fall-back %s): %s' % (n, e))
            continue
        k = kani.narrow_tagged(recs[0], prop, load_known()[0])
        out.append(k)
        for kf in k.get('known_findings', []):
            print('KNOWN-FINDING: %s (%d failing case(s) in this run)' % (kf['finding'], kf['cases']))
        if k['status'] == 'FAILURE':
            rp = kani.write_replay(VERIF, prop, k)
            print('bounded fall-back %s: a case run on the real code contradicts %s: %s' % (n, prop, k.get('failed_checks', '')[:1200]))
            print('VIOLATION property=%s replay=%s' % (prop, rp))
            return 1, out
        if k['status'] == 'SUCCESS':
            print('NOTE: fall-back %s found no failing case for %s within its bound (%s); the verdict stays undecided' % (n, prop, k.get('note', 'all cases conform')))
        else:
            print('TOOL-CONDITION: fall-back %s: %s %s' % (n, k['status'], (k.get('output_tail') or '')[-600:].replace('\n', ' | ')))
    return 2, out


def main():
    ap = argparse.ArgumentParser()
    ap.add_argument('prop')
    ap.add_argument('--tier', default=os.environ.get('VERIF_TIER', 'quick'))
    ap.add_argument('--replay', default=None)
    ap.add_argument('--no-kani', action='store_true')
    a = ap.parse_args()
    prop = a.prop
    tier = 'thorough' if a.tier == 'thorough' else 'quick'
    seed = int(os.environ.get('VERIF_SEED', '0') or 0)
    if prop not in PROPS:
        print('unknown property', prop); sys.exit(2)
    P = PROPS[prop]
    t0 = time.time()
    if a.replay:
        rec0 = json.load(open(a.replay))
        if str(rec0.get('verifier', '')).startswith('native enumeration') and rec0.get('obligation') in kani.HARNESSES:
            # replay of a failing case found by an enumeration: run it again against the real code of the current tree
            k = kani.narrow_tagged(kani.run_harnesses(REPO, VERIF, [rec0['obligation']])[0], prop, load_known()[0])
            if k['status'] == 'FAILURE':
                print('REPLAY: %s still fails on the current tree: %s' % (rec0['obligation'], k.get('failed_checks', '')[:1500])); sys.exit(1)
            print('REPLAY: %s: %s on the current tree %s' % (rec0['obligation'], k['status'], k.get('note', ''))); sys.exit(0 if k['status'] == 'SUCCESS' else 2)
    build = os.path.join(VERIF, 'build', 'run-%s' % prop)
    os.makedirs(build, exist_ok=True)
    lenient_note = None
    try:
        g = gen.Generator(REPO, VERIF)
        res = g.generate()
        path = gen.write_outputs(res, build)
    except (gen.ToolCondition, gen.ContractError) as e:
        print('TOOL-CONDITION: %s' % e)
        g = None
        if isinstance(e, gen.ToolCondition) and str(e).startswith('lost anchor') and ': /' in str(e) and not a.replay:
            # A proof HINT lost its anchor (the statement it was attached to was rewritten).  Second attempt: drop such hints.  The function that
            # lost a hint cannot be decided (its failures are "undecided"); every other function and every structural obligation is judged as
            # usual (Verus is modular: a caller sees only the callee's contract, so a dropped hint inside F cannot make G fail).
            try:
                g = gen.Generator(REPO, VERIF)
                g.lenient = True
                res = g.generate()
                path = gen.write_outputs(res, build)
                lenient_note = 'proof hints dropped because their anchors are lost: ' + '; '.join('%s: %s' % (k, ', '.join(v)) for k, v in sorted(g.dropped_hints.items()))
                print('NOTE: second attempt without the lost proof hints (%s)' % lenient_note[:300])
            except (gen.ToolCondition, gen.ContractError) as e2:
                print('TOOL-CONDITION: %s' % e2)
                g = None
        if g is None:
            sys.exit(fallback_enumeration(prop, str(e))[0] if not a.replay else 2)
    extra = []
    if seed:
        extra += ['--smt-option', 'smt.random_seed=%d' % (seed % 1000), '--smt-option', 'sat.random_seed=%d' % (seed % 1000)]
    rlimit = 30 if tier == 'quick' else 60
    try:
        run = runner.run_verus(path, res, rlimit=rlimit, extra=extra)
    except gen.ToolCondition as e:
        print('TOOL-CONDITION: %s' % e); sys.exit(fallback_enumeration(prop, str(e))[0] if not a.replay else 2)
    if a.replay:
        rec = json.load(open(a.replay))
        hit = [f for f in run.failures if f.oid == rec.get('obligation')]
        if hit:
            print('REPLAY: obligation %s still fails:' % rec.get('obligation'))
            print(hit[0].rendered)
            sys.exit(1)
        print('REPLAY: obligation %s is discharged on the current tree' % rec.get('obligation'))
        sys.exit(0)
    obs = obligations_for(res, prop)
    findings, fixed = load_known()
    violations, known_hits, unattributed = [], [], []
    for f in run.failures:
        if f.oid.startswith('S:'):
            run.tool_errors.append('spec lemma failed: %s (%s)' % (f.oid, f.message))
            continue
        tags = failure_props(f, res)
        if not tags:
            unattributed.append(f)
        if prop in tags:
            kf = [k for k in findings if k['property'] == prop and k['obligation'] == f.oid and (not k['site'] or k['site'] == f.addr)]
            (known_hits if kf else violations).append(f)
    # ownership conditions checked on the source text (@holds)
    synt = [x for x in getattr(res, 'syntactic', []) if prop in x['tags']]
    for x in synt:
        if not x['ok']:
            violations.append(runner.Failure(oid=x['oid'], addr=x['addr'], kind='ownership', message='ownership condition not met: ' + x['why'],
                                             gen_line=0, src_file=x['src_file'], src_line=x['src_line'], tags=x['tags'],
                                             rendered='syntactic ownership check (Rust drop rules) failed in %s: %s' % (x['addr'], x['why'])))
    # Modularity caveat: a function that did not exist when the contracts were written has no contract; a caller of
    # it cannot be decided (its failing obligations are "undecided", exit 2, not a violation).
    violations, undecided, notes_ = split_new_function_failures(g, res, violations)
    run.tool_errors.extend(notes_)
    # Re-implementation caveat: the proof hints (anchors, asserted intermediate facts, loop invariants) were written for the body a function
    # had when its contract was admitted.  If the body has been REWRITTEN (token similarity to the baseline body below 0.5; every edit-sized
    # change in the corpus is above 0.59, the two re-implementations in it are at 0.28 / 0.30), a failing Verus obligation there may only
    # mean "needs new hints": undecided (exit 2), not a violation.  Kani harnesses and structural obligations are not affected.
    base_toks = load_base_tokens()
    if base_toks and violations:
        sim = {}
        keep = []
        for v in violations:
            if v.kind == 'ownership' or v.addr not in base_toks:
                keep.append(v); continue
            if v.addr not in sim:
                sim[v.addr] = body_similarity(g, res, v.addr, base_toks)
            if sim[v.addr] < 0.5:
                undecided.append(v)
                run.tool_errors.append('undecided: %s fails in %s, whose body was re-implemented (token similarity to the admitted body %.2f < 0.50): the proof hints may not carry over' % (v.oid, v.addr, sim[v.addr]))
            else:
                keep.append(v)
        violations = keep
    if lenient_note:
        keep = []
        # generated-file line ranges of the functions that lost a hint (a failure of a TRAIT method's clause is located in the impl's body)
        spans = [(f.gen_first, f.gen_last, f.src_file, f.src_line) for f in res.fns if f.addr.split('#')[0] in g.dropped_hints and f.gen_last]
        def _inside(v):
            return (v.addr.split('#')[0] in g.dropped_hints or any(a_ <= v.gen_line <= b_ for a_, b_, _f, _l in spans)
                    or any(v.src_file == f_ and l_ <= v.src_line <= l_ + (b_ - a_) for a_, b_, f_, l_ in spans))
        # a clause of a trait method that fails in such an impl is reported once per span: all reports of that clause id are undecided
        oids_inside = set(v.oid for v in violations if v.kind != 'ownership' and _inside(v))
        for v in violations:
            inside = (v.oid in oids_inside or v.addr.split('#')[0] in g.dropped_hints or any(a_ <= v.gen_line <= b_ for a_, b_, _f, _l in spans)
                      or any(v.src_file == f_ and l_ <= v.src_line <= l_ + (b_ - a_) for a_, b_, f_, l_ in spans))
            if v.kind != 'ownership' and inside:
                undecided.append(v)
            else:
                keep.append(v)
        violations = keep
        run.tool_errors.append('undecided: ' + lenient_note)
    # Trusted / external functions are assumed, not proved: if the source text of one that this property leans on
    # has changed since its contract was written, the assumption is no longer backed by an audit -> undecided.
    try:
        base_sha = json.load(open(os.path.join(VERIF, 'contracts', 'baseline.json'))).get('unverified_source_sha', {})
    except Exception:
        base_sha = {}
    changed_trusted = []
    for f in res.fns:
        if f.status in ('trusted', 'external') and f.addr in base_sha and getattr(f, 'src_sha', '') != base_sha[f.addr]:
            relevant = prop in f.tags or any(prop in t for (a_, b_, o_, t, k_, ad) in res.clause_ranges if ad == f.addr)
            if relevant:
                changed_trusted.append(f.addr)
    for a_ in changed_trusted:
        run.tool_errors.append('undecided: the unverified (trusted/external) function %s changed since its contract was assumed; its contract must be re-audited' % a_)
    scan_fail = []
    # thorough: vacuity canary + solver seeds
    canary = None
    seeds_ok = None
    if tier == 'thorough' and not run.tool_errors:
        canary = run_canary(res, build, prop)
        seeds_ok = run_seeds(path, res, [11, 23])
    # Kani part
    kres = []
    if not a.no_kani:
        wanted = P.get('kani_quick', []) + (P.get('kani_thorough', []) if tier == 'thorough' else [])
        if wanted:
            try:
                kres = [kani.narrow_tagged(k, prop, findings) for k in kani.run_harnesses(REPO, VERIF, wanted)]
            except gen.ToolCondition as e:
                print('TOOL-CONDITION (kani): %s' % e)
                run.tool_errors.append('kani: %s' % e)
    wall = time.time() - t0
    # ---------------------------------------------------------------- verdict
    failed_ids = set(f.oid for f in violations) | set(f.oid for f in known_hits)
    # a body failure B:<fn>:<kind> marks the body obligation B:<fn> as failed
    failed_body = set(re.sub(r':[a-z]+$', '', f.oid) for f in violations + known_hits if f.oid.startswith('B:'))
    verus_obs = [o for o in obs.values() if o['status'] == 'verify']
    trusted_obs = [o for o in obs.values() if o['status'] != 'verify']
    discharged = [o for o in verus_obs if o['id'] not in failed_ids and o['id'] not in failed_body]
    kani_viol = [k for k in kres if k['status'] == 'FAILURE']
    kani_tool = [k for k in kres if k['status'] not in ('SUCCESS', 'FAILURE')]
    kani_ok = [k for k in kres if k['status'] == 'SUCCESS']
    kani_proof = [k for k in kani_ok if not k['bounded']]
    kani_bounded = [k for k in kani_ok if k['bounded']]
    # spec-level lemmas this property leans on (proved once, no repo code in them)
    lemma_status = []
    for ln in LEMMAS.get(prop, []):
        hit = [v for k, v in run.fn_times.items() if k.endswith('::' + ln)]
        ok = bool(hit) and all(v.get('success') for v in hit)
        lemma_status.append(dict(lemma=ln, proved=ok))
        if not ok:
            run.tool_errors.append('spec lemma %s not proved' % ln)
    n_obl = len(verus_obs) + len([k for k in kres if not k['bounded']]) + len(lemma_status)
    n_dis = len(discharged) + len(kani_proof) + len([l for l in lemma_status if l['proved']])
    n_obl += len(synt)
    n_dis += len([x for x in synt if x['ok']])
    tool_cond = bool(run.tool_errors) or bool(kani_tool) or (canary is not None and canary['vacuous']) or (n_obl == 0 and P['level'] == 'proof')
    assum = scan_assumptions(res)
    trusted_fns = sorted(f.addr for f in res.fns if f.status == 'trusted')
    external_fns = sorted(f.addr for f in res.fns if f.status in ('external', 'omitted'))
    fn_under_contract = sorted(set(o['fn'] for o in verus_obs))
    samples = [dict(obligation=o['id'], kind=o['kind'], function=o['fn']) for o in sorted(verus_obs, key=lambda o: o['id'])[:12]]
    samples += [dict(harness=k['name'], status=k['status'], bounded=k['bounded'], bound=k.get('bound', ''), seconds=k.get('seconds'))
                for k in kres]
    level = P['level']
    coverage = {
        'obligations': n_obl,
        'discharged': n_dis,
        'checker_cmd': run.cmd + (' ; cargo kani -Z function-contracts --harness <h> (per harness)' if kres else ''),
        'trusted_base': P.get('trusted', []) + ['Verus 0.2026.09.13 / Z3 / vstd', 'rustc'] + (['Kani 0.68 / CBMC 6.11'] if kres else []),
        'samples': samples,
        'explanation': P['explain'],
        'backend': 'verus(z3)' + ('+kani(cbmc)' if any(k.get('backend') is None for k in kres) else '') + ('+native-enumeration(cargo test; bounded stand-in)' if any(k.get('backend') for k in kres) else ''),
        'spec_lemmas': lemma_status,
        'syntactic_ownership_checks': synt,
        'verus_functions_verified_whole_file': run.verified,
        'verus_solver_ms': run.smt_ms,
        'functions_under_contract_for_this_property': fn_under_contract,
        'assumed_contract_clauses_on_trusted_functions': sorted(o['id'] for o in trusted_obs),
        'trusted_functions_in_generated_file': trusted_fns,
        'functions_outside_verus': external_fns,
        'bounded_standins': [dict(harness=k['name'], bound=k.get('bound', ''), status=k['status']) for k in kani_bounded] or
                            [dict(harness=h, note='runs in the thorough tier') for h in P.get('kani_thorough', []) if tier == 'quick'],
        'kani_harnesses': kres,
        'assumption_scan_of_generated_file': assum,
        'rewrite_rule_hits': res.rule_hits,
        'source_sha256': res.sha,
        'not_decided': P.get('not_decided', []),
        'vacuity_canary': canary,
        'solver_seed_stability': seeds_ok,
        'unattributed_failures': [f.oid for f in unattributed],
        'changed_unverified_functions': changed_trusted,
        'contracted_items_no_longer_present': getattr(g, 'removed_items', []),
        'exhaustive': False,
        'fallback_when_undecided': dict(
            note='not run on this tree unless listed under fallback_enumeration: only when the deductive verdict on a CHANGED tree is undecided (exit 2) are these bounded enumerations run against the real code; a failing case tagged with this property is then reported as the violation with its input; finding nothing leaves the verdict undecided; never counted in discharged (DESIGN.md 13.13)',
            harnesses=[dict(harness=n_, bound=kani.HARNESSES[n_]['bound']) for n_ in ('E-fault', 'E-dmg', 'E-hist') if prop in FALLBACKS[n_]]),
        'proof_hints_dropped_in_second_attempt': (g.dropped_hints if lenient_note else {}),
    }
    ev = {
        'property_id': prop, 'tier': tier, 'seed': seed, 'level': level, 'coverage': coverage,
        'assumptions': P.get('assumptions', []) + COMMON_ASSUMPTIONS,
        'wall_s': round(wall, 2), 'violations': len(violations) + len(kani_viol),
    }
    os.makedirs(os.path.join(VERIF, 'evidence'), exist_ok=True)
    with open(os.path.join(VERIF, 'evidence', prop + '.json'), 'w') as fh:
        json.dump(ev, fh, indent=1)
    for a_ in getattr(g, 'removed_items', []):
        print('NOTE: the contracted function %s no longer exists; its contract is moot, its former callers are judged by their own contracts' % a_)
    for t in run.tool_errors:
        print('TOOL-CONDITION: %s' % t[:400])
    for k in kani_tool:
        print('TOOL-CONDITION: kani harness %s: %s' % (k['name'], k['status']))
    if canary is not None and canary['vacuous']:
        print('TOOL-CONDITION: vacuous contracts (ensures false verified): %s' % canary['vacuous'])
    for k in kres:
        for kf in k.get('known_findings', []):
            print('KNOWN-FINDING: %s (%d failing case(s) in this run)' % (kf['finding'], kf['cases']))
    seen = set()
    for f in known_hits:
        if f.oid not in seen:
            seen.add(f.oid)
            print('KNOWN-FINDING: property=%s obligation=%s site=%s %s' % (prop, f.oid, f.addr, f.message))
    rc = 0
    seen = set()
    for f in violations:
        if f.oid in seen:
            continue
        seen.add(f.oid)
        rp = write_replay(prop, f, run)
        print('obligation %s (%s) of %s failed: %s  [src/%s:%d]' % (f.oid, f.kind, f.addr, f.message, f.src_file, f.src_line))
        print('VIOLATION property=%s replay=%s no-failing-input-found' % (prop, rp))
        rc = 1
    for k in kani_viol:
        rp = kani.write_replay(VERIF, prop, k)
        tail = '' if k.get('concrete') else ' no-failing-input-found'
        print('kani harness %s FAILED: %s' % (k['name'], k.get('failed_checks', '')[:300]))
        print('VIOLATION property=%s replay=%s%s' % (prop, rp, tail))
        rc = 1
    if rc == 0 and tool_cond:
        rc = 2
        if not any(k['name'].startswith('E-hist') or k['name'] in ('E-dmg', 'E-fault') for k in kres):
            rc, fbs = fallback_enumeration(prop, '; '.join(run.tool_errors)[:200] or 'tool condition')
            if fbs:
                ev['coverage']['fallback_enumeration'] = [{k_: fb.get(k_) for k_ in ('name', 'status', 'bound', 'seconds', 'failed_checks', 'note', 'other_properties_failing')} for fb in fbs]
                ev['violations'] += 1 if rc == 1 else 0
                with open(os.path.join(VERIF, 'evidence', prop + '.json'), 'w') as fh:
                    json.dump(ev, fh, indent=1)
    if rc == 0:
        print('OK property=%s tier=%s obligations=%d discharged=%d kani=%d (bounded %d) wall=%.1fs' % (
            prop, tier, n_obl, n_dis, len(kani_ok), len(kani_bounded), wall))
    sys.exit(rc)


COMMON_ASSUMPTIONS = [
    'Verus, Z3, vstd, rustc are sound; Kani/CBMC where a harness is listed',
    'the generated file is /repo/src copied token for token except rewrite rules R1..R32 (DESIGN.md 2.2 and 13); hit counts in coverage.rewrite_rule_hits',
    'assumed std contracts (spec/std_specs.rs): VecDeque::{as_slices,capacity,shrink_to,shrink_to_fit}, Vec::capacity, Vec::extend(&[u8]), HashMap<String,_> looked up by &str (String key model, view injectivity), Result::unwrap_or_else, convert::identity, mem::take, str::from_utf8, Instant::now, iter::once, BTreeSet::{first,pop_first,len}, BTreeSet::range((Excluded(k),Unbounded)).next() (R26 shim), HashMap::get_mut, fs::remove_file, <File as Seek>::seek(SeekFrom::Start(n)), read_dir (R29 stand-in DirIter over the ghost listing), DirEntry::{file_type,file_name}, FileType::is_file, OsStr::to_str, <OsString as Deref>::deref, Path::to_path_buf, String: Ord obeys the vstd cmp laws; bytes::Buf (R10), (start..).zip(it) (R19) and RangeBounds::{start_bound,end_bound} through a generic bound = the spec value vstd gives (R22) in spec/vshim.rs; derived Default/PartialEq impls are field-wise',
    'shims of R6/R7 (spec/vshim.rs): u16/u32/u64 to/from little-endian bytes = vstd::bytes specs; Vec::drain(..n) / VecDeque::drain(..n) remove the first n elements',
    'crc32 is an uninterpreted function of (payload, type byte) (R9); nothing is assumed about it',
    'FS primitives (rolling/*): assumed contracts over a ghost model -- a file is a byte stream cut into 32 KiB blocks (spec/vfs.rs, read side); BufWriter<File> = vshim::BufFile with ghost content()/flushed()/synced() (write side): flush hands everything to the OS, fdatasync makes what the OS has durable, a forward seek skips bytes the file already holds; what is on disk after a FAILED write is not modelled',
    'A-stream-bound: fewer than 2^62 bytes are written through one RollingWriter (explicit assume at the roll-over); A-file-number-bound: the number of the file being written is below 2^63 (explicit assume before FileTracker::inc); A-file-count: fewer than 2^37 WAL files are tracked (explicit assume in RollingWriter::size); A-file-size: a WAL file holds at most 4096 full blocks, so recovery resumes within its first 128 MiB (explicit assume in RollingReader::into_writer); A-mem-total: the total of reserved bytes over all in-memory queues fits usize (explicit assume in MemQueues::size)',
    'usize is 64 bit; machine arithmetic is NOT treated as mathematical (every +,-,*,cast is an overflow obligation)',
    'physical bounds: a payload buffer never exceeds 2^60 bytes; one GC pass writes less than 2^60 bytes',
    'spec_from axioms (spec/vfrom.rs): the `?` operator converts errors exactly as the crate\'s verified From impls',
]


def run_canary(res, build, prop):
    """Re-emit every contracted verified function with `ensures false`: each must FAIL, otherwise its
    precondition is contradictory or an assumption in its cone proves anything."""
    text_lines = res.text.split('\n')
    targets = []
    for f in res.fns:
        if f.status == 'verify' and f.has_contract and f.gen_first:
            targets.append(f)
    # insert a marker clause by textual surgery: find the body-opening line: we appended spec clauses right
    # before the body `{`; simplest robust way: add `ensures false,` handled by the generator
    g = gen.Generator(REPO, VERIF)
    g.canary = True
    res2 = g.generate()
    p2 = gen.write_outputs(res2, build, name='gen_canary')
    run2 = runner.run_verus(p2, res2, rlimit=5, multiple_errors=3)
    if run2.tool_errors and not run2.failures and run2.verified == 0:
        # the canary file did not even compile: that says nothing about vacuity
        return dict(checked=0, vacuous=['canary run failed: %s' % run2.tool_errors[0][:200]], skipped=[], tool_error=True)
    failed_fns = set(f.addr for f in run2.failures)
    # functions whose failure could not be mapped still show up as unsuccessful in fn_times
    vacuous = []
    n = 0
    # a canary copy that ran out of resource limit did NOT verify `ensures false` either: only a copy Verus reports as verified is vacuous
    unverified = set(k for k, v in run2.fn_times.items() if not v.get('success'))

    def canary_key(addr):
        # 'rolling/directory.rs::Directory::open#canary' -> '::rolling::directory::Directory::open__verif_canary'
        a = addr.split('#')[0]
        f, _, rest = a.partition('.rs::')
        mod = '::'.join(x for x in f.split('/') if x not in ('lib', 'mod'))
        return '::' + (mod + '::' if mod else '') + rest + '__verif_canary'
    for f in res2.fns:
        if f.status == 'verify' and getattr(f, 'canary', False):
            n += 1
            ck = canary_key(f.addr)
            if f.addr not in failed_fns and not any(u.endswith(ck) for u in unverified):
                vacuous.append(f.addr)
    # rlimit-exceeded functions are reported as tool errors by the runner: those are not "verified false"
    rl = [t for t in run2.tool_errors if 'rlimit' in t.lower() or 'resource limit' in t.lower()]
    return dict(functions=n, failed_as_expected=n - len(vacuous), vacuous=vacuous, rlimit_hits=len(rl), wall_s=round(run2.wall_s, 1))


def run_seeds(path, res, seeds):
    out = []
    for s in seeds:
        r = runner.run_verus(path, res, rlimit=60, extra=['--smt-option', 'smt.random_seed=%d' % s, '--smt-option', 'sat.random_seed=%d' % s])
        out.append(dict(seed=s, ok=r.ok, verified=r.verified, errors=r.errors, smt_ms=r.smt_ms,
                        failing=[f.oid for f in r.failures][:10], tool=r.tool_errors[:3]))
    return out


if __name__ == '__main__':
    main()
