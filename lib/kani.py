"""Kani side (DESIGN.md 2.4): copy /repo's working tree to a scratch dir, append the harness modules of
/verif/kani/*.rs as child modules of the source files they name, run `cargo kani` on the named harnesses."""
import os, re, subprocess, shutil, tempfile, time, json, glob

from gen import ToolCondition

# name -> (harness fn, bounded?, bound text)
HARNESSES = {
    'K-fname': dict(path='rolling::directory::verif_kani::k_fname', fn='k_fname', bounded=False, bound='all 2^192 24-byte names (byte 4 a char boundary); loops bounded by the constant width 24, unwinding assertions on'),
    'K-fname-nb': dict(path='rolling::directory::verif_kani::k_fname_nb', fn='k_fname_nb', bounded=False, bound='all valid UTF-8 names of 24 bytes whose byte 4 is not a char boundary (exact validity predicate in the harness): None, no panic; loops bounded by the constant width 24'),
    'K-fname-len': dict(path='rolling::directory::verif_kani::k_fname_len', fn='k_fname_len', bounded=False, bound='all lengths 0..=32 except 24, all byte contents; loop-free'),
    'E-fname-rt': dict(kind='enum', path='rolling::file_number::verif_enum::e_fname_rt', fn='e_fname_rt', bounded=True, bound='NATIVE ENUMERATION (cargo test, not symbolic): every d*10^k and 2^k with both neighbours, u64::MAX, 200000 pseudo-random numbers: name is wal- + 20 digits and parses back'),
    'E-c06': dict(kind='enum', path='multi_record_log::verif_enum_c06::e_c06_histories', fn='e_c06_histories', bounded=True, bound='NATIVE EXHAUSTIVE ENUMERATION OF HISTORIES (cargo test, not symbolic): two queues, every history of at most 4 operations out of 11 (small / block-spilling append, truncate all / half, delete+recreate, reopen): 16104 histories on real 4-block WAL files; the C06 statement checked after every truncate / delete / open'),
    'E-hist': dict(kind='enum', tagged=True, path='multi_record_log::verif_enum_hist::e_hist_quick', fn='e_hist_quick', bounded=True, bound='NATIVE EXHAUSTIVE ENUMERATION OF HISTORIES (cargo test, not symbolic) against an executable reference model of the property texts, public API only: two queues; every history of 3 calls out of 23 (create / delete / append through both entry points with automatic, next, last, past, future position and 1-record, empty-payload, 2-record, empty and 70 000-byte batches / truncate far below, just below, inside, at the end of, beyond the retained records / reopen) and, both queues created, every history of 5 calls out of 11 (the block-spilling, truncating, deleting, restarting ones): 173 218 histories under Always(Flush), a third each also under DoNothing and Always(FlushAndFsync); after EVERY call: return value, every accessor, every kind of range bound, memory accounting, directory content, reported WAL bytes against an independent walk over the frame headers; clean restart and process-crash image of fully persisted states'),
    'E-hist-deep': dict(kind='enum', tagged=True, timeout=5400, path='multi_record_log::verif_enum_hist::e_hist_deep', fn='e_hist_deep', bounded=True, bound='as E-hist, every history of 4 calls out of 23 and every history of 6 calls out of 11: 2 051 402 histories'),
    'E-dmg': dict(kind='enum', tagged=True, path='multi_record_log::verif_enum_dmg::e_dmg', fn='e_dmg', bounded=True, bound='NATIVE EXHAUSTIVE ENUMERATION OF SINGLE-SITE DAMAGE (cargo test, not symbolic), public API + raw edits of the WAL files: 42 layouts (an entry ending / starting with 0,1,6,7,8,9,40 bytes left in its block; 1-, 2-, 3-frame entries; a 4-record batch with a record boundary before / on / after a frame boundary; delete + re-create; entries spanning a file boundary; multi-frame entries whose last frame ends exactly at a block end; truncations); for EVERY frame: payload byte flipped (first / middle / last), checksum byte flipped, every other type byte in {0..5,255}, length +-1 / 0 / 65535 / to the block end / one beyond, block zeroed, torn tail at 4 cut points, frame overwritten by a copy of another frame of the same length; whole-file damage (C10 only): each file removed / cut to 0, 100, one block + 100 bytes / extended by two blocks of 0xFF / duplicated under the next number, an empty file and a sub-directory with the next WAL names: 8992 images opened; oracles C10 (no panic), C08 (only appended records), C12 (batch whole / none / minus a truncated head), C09 (confined damage costs one entry), C07+C01 (intact log reopens identical), C15 (while the layouts are built: reported wal_bytes_written == growth of the data in the files at every alignment)'),
    'E-fault': dict(kind='enum', tagged=True, path='multi_record_log::verif_enum_fault::e_fault', fn='e_fault', bounded=True, bound='NATIVE FAULT INJECTION (cargo test, not symbolic), public API + the file system: one layout (one queue, 30 000-byte records until the log spans 4 WAL files); each WAL file in turn is replaced by a regular file that cannot be opened read+write (a copy of a program being executed: ETXTBSY, also for root); oracle C11: open returns Err(IoError) within 20 s; if the environment cannot produce the fault the harness fails without a verdict (tool condition)'),
    'E-gate': dict(kind='enum', path='rolling::directory::verif_enum::e_gate', fn='e_gate', bounded=True, bound='NATIVE EXHAUSTIVE ENUMERATION (cargo test, not symbolic): trackers of 1..=5 files (consecutive or gapped numbers), every subset pinned by a live clone: 124 cases'),
    'K-handles': dict(path='rolling::file_number::verif_kani::k_handles', fn='k_handles', bounded=True, bound='fixed shape: 3 appends over 2 files, truncate position symbolic in 0..=3'),
    'K-hdr': dict(path='frame::header::verif_kani::k_hdr_roundtrip', fn='k_hdr_roundtrip', bounded=False, bound='all 2^56 7-byte headers; loop-free'),
    'K-le': dict(path='frame::header::verif_kani::k_le', fn='k_le', bounded=False, bound='all u16/u32/u64 values; loops bounded by the byte width'),
    'K-getrange-r0': dict(path='mem::rolling_buffer::verif_kani::k_getrange_r0', fn='k_getrange_r0', bounded=True, bound='ring buffers of <= 3 bytes (capacity 4) at rotation 0, all RangeBounds kinds with symbolic bounds'),
    'K-getrange-r1': dict(path='mem::rolling_buffer::verif_kani::k_getrange_r1', fn='k_getrange_r1', bounded=True, bound='ring buffers of <= 3 bytes (capacity 4) at rotation 1, all RangeBounds kinds with symbolic bounds'),
    'K-getrange-r2': dict(path='mem::rolling_buffer::verif_kani::k_getrange_r2', fn='k_getrange_r2', bounded=True, bound='ring buffers of <= 3 bytes (capacity 4) at rotation 2, all RangeBounds kinds with symbolic bounds'),
    'K-getrange-r3': dict(path='mem::rolling_buffer::verif_kani::k_getrange_r3', fn='k_getrange_r3', bounded=True, bound='ring buffers of <= 3 bytes (capacity 4) at rotation 3, all RangeBounds kinds with symbolic bounds'),
    'K-p2i': dict(path='mem::queue::verif_kani::k_p2i', fn='k_p2i', bounded=True, bound='<= 4 record metas with symbolic strictly increasing positions, symbolic searched position'),
    'K-range-ii': dict(path='mem::queue::verif_kani::k_range_ii', fn='k_range_ii', bounded=True, bound='2 records x 1-byte payloads at symbolic positions; bound kinds ii with symbolic values'),
    'K-range-ie': dict(path='mem::queue::verif_kani::k_range_ie', fn='k_range_ie', bounded=True, bound='2 records x 1-byte payloads at symbolic positions; bound kinds ie with symbolic values'),
    'K-range-iu': dict(path='mem::queue::verif_kani::k_range_iu', fn='k_range_iu', bounded=True, bound='2 records x 1-byte payloads at symbolic positions; bound kinds iu with symbolic values'),
    'K-range-ei': dict(path='mem::queue::verif_kani::k_range_ei', fn='k_range_ei', bounded=True, bound='2 records x 1-byte payloads at symbolic positions; bound kinds ei with symbolic values'),
    'K-range-ee': dict(path='mem::queue::verif_kani::k_range_ee', fn='k_range_ee', bounded=True, bound='2 records x 1-byte payloads at symbolic positions; bound kinds ee with symbolic values'),
    'K-range-eu': dict(path='mem::queue::verif_kani::k_range_eu', fn='k_range_eu', bounded=True, bound='2 records x 1-byte payloads at symbolic positions; bound kinds eu with symbolic values'),
    'K-range-ui': dict(path='mem::queue::verif_kani::k_range_ui', fn='k_range_ui', bounded=True, bound='2 records x 1-byte payloads at symbolic positions; bound kinds ui with symbolic values'),
    'K-range-ue': dict(path='mem::queue::verif_kani::k_range_ue', fn='k_range_ue', bounded=True, bound='2 records x 1-byte payloads at symbolic positions; bound kinds ue with symbolic values'),
    'K-range-uu': dict(path='mem::queue::verif_kani::k_range_uu', fn='k_range_uu', bounded=True, bound='2 records x 1-byte payloads at symbolic positions; bound kinds uu with symbolic values'),
    'K-mrs-0': dict(path='record::verif_kani::k_mrs_0', fn='k_mrs_0', bounded=True, bound='empty batch, symbolic first position'),
    'K-mrs-1': dict(path='record::verif_kani::k_mrs_1', fn='k_mrs_1', bounded=True, bound='1 payload of <= 2 bytes, symbolic first position'),
}

RSS_LIMIT_KB = 12 * 1024 * 1024
TIMEOUT_S = int(os.environ.get('VERIF_KANI_TIMEOUT', '900'))


def prepare_scratch(repo, verif):
    scratch = tempfile.mkdtemp(prefix='verif_kani_', dir=os.environ.get('VERIF_SCRATCH', '/tmp'))
    subprocess.run(['rsync', '-a', '--exclude', 'target', '--exclude', '.git', repo.rstrip('/') + '/', scratch + '/'], check=True)
    for hf in sorted(glob.glob(os.path.join(verif, 'kani', '*.rs')) + glob.glob(os.path.join(verif, 'enum', '*.rs'))):
        text = open(hf).read()
        m = re.search(r'@append-to\s+(\S+)', text)
        if not m:
            raise ToolCondition('kani harness file %s has no @append-to line' % hf)
        target = os.path.join(scratch, m.group(1))
        if not os.path.exists(target):
            raise ToolCondition('lost anchor: %s (named by %s) does not exist' % (m.group(1), os.path.basename(hf)))
        with open(target, 'a') as f:
            f.write('\n\n// ---- appended by /verif/lib/kani.py from %s ----\n' % os.path.basename(hf))
            f.write(text)
    return scratch


def run_harnesses(repo, verif, names):
    for n in names:
        if n not in HARNESSES:
            raise ToolCondition('unknown kani harness %s' % n)
    scratch = prepare_scratch(repo, verif)
    target_dir = os.path.join(verif, 'build', 'kani-target')
    os.makedirs(target_dir, exist_ok=True)
    env = dict(os.environ)
    env['CARGO_NET_OFFLINE'] = 'true'
    env['CARGO_TARGET_DIR'] = target_dir
    results = []
    try:
        for n in names:
            h = HARNESSES[n]
            if h.get('kind') == 'enum':
                # bounded stand-in by exhaustive enumeration, executed natively against the real code
                cmd = ['cargo', 'test', '--offline', '--lib', h['path'], '--', '--exact']
                env2 = dict(env); env2['CARGO_TARGET_DIR'] = os.path.join(verif, 'build', 'enum-target')
                if os.path.isdir('/dev/shm') and os.access('/dev/shm', os.W_OK):
                    env2['TMPDIR'] = '/dev/shm'   # the enumerations create ~10^5 short-lived WAL directories (tempfile::tempdir): memory-backed is 3x faster
                t0 = time.time()
                out, timed_out, oom = run_guarded(cmd, scratch, env2, h.get('timeout', TIMEOUT_S))
                dt = time.time() - t0
                rec = dict(name=n, harness=h['fn'], bounded=True, bound=h['bound'], seconds=round(dt, 1), cmd=' '.join(cmd), backend='native enumeration (cargo test)')
                m = re.search(r'test result: (\w+)\. (\d+) passed; (\d+) failed', out)
                if oom or timed_out or not m:
                    rec['status'] = 'TIMEOUT' if timed_out else 'TOOL'
                    rec['output_tail'] = out[-1500:]
                elif int(m.group(2)) == 1 and int(m.group(3)) == 0:
                    rec['status'] = 'SUCCESS'
                elif int(m.group(3)) >= 1:
                    rec['status'] = 'FAILURE'
                    if h.get('tagged'):
                        rec['tagged_fails'] = [dict(tags=m2.group(1).split(','), line=m2.group(0)[:1500]) for m2 in re.finditer(r'^E-HIST-FAIL tags=(\S+) [^\n]*', out, re.M)]
                    pm = re.search(r"panicked at [^\n]*\n(?:[^\n]*\n){0,6}", out)
                    rec['failed_checks'] = (pm.group(0) if pm else '')[:600]
                    rec['output_tail'] = out[-3000:]
                    rec['concrete'] = 'failing case reported by the enumeration itself (it runs the real code): ' + rec['failed_checks']
                    rec['replayed'] = dict(cmd=' '.join(cmd) + '   (in a copy of /repo with /verif/enum/*.rs appended)', panic=rec['failed_checks'], result=m.group(0))
                else:
                    rec['status'] = 'TOOL'
                    rec['output_tail'] = 'harness not found / not run: ' + out[-800:]
                results.append(rec)
                continue
            cmd = ['cargo', 'kani', '-Z', 'function-contracts', '--exact', '--harness', h['path']]
            t0 = time.time()
            out, timed_out, oom = run_guarded(cmd, scratch, env, TIMEOUT_S)
            dt = time.time() - t0
            rec = dict(name=n, harness=h['fn'], bounded=h['bounded'], bound=h['bound'], seconds=round(dt, 1), cmd=' '.join(cmd))
            if oom:
                rec['status'] = 'MEMORY-GUARD'
            elif timed_out:
                rec['status'] = 'TIMEOUT'
            elif 'VERIFICATION:- SUCCESSFUL' in out and 'VERIFICATION:- FAILED' not in out:
                rec['status'] = 'SUCCESS'
                m = re.search(r'\*\* (\d+) of (\d+) failed', out)
                if m:
                    rec['checks'] = int(m.group(2))
            elif 'VERIFICATION:- FAILED' in out:
                rec['status'] = 'FAILURE'
                fails = re.findall(r'Failed Checks: (.*)', out)
                rec['failed_checks'] = '; '.join(fails[:6])
                rec['output_tail'] = out[-3000:]
                m = re.search(r'\*\* (\d+) of (\d+) failed', out)
                if m:
                    rec['checks'] = int(m.group(2))
                # unwinding assertion failures mean "bound too small", not a violation
                if fails and all('unwinding assertion' in f for f in fails):
                    rec['status'] = 'UNWIND-BOUND'
                else:
                    rec.update(concrete_playback(scratch, env, h['path']))
            else:
                rec['status'] = 'ERROR'
                rec['output_tail'] = out[-3000:]
            results.append(rec)
    finally:
        shutil.rmtree(scratch, ignore_errors=True)
    return results


def _ppid(pid):
    try:
        with open('/proc/%d/stat' % pid) as f:
            return int(f.read().rsplit(')', 1)[1].split()[1])
    except Exception:
        return 0


def cbmc_pids(root):
    """cbmc processes that descend from process `root`"""
    out = []
    try:
        for pid in subprocess.run(['pgrep', '-x', 'cbmc'], capture_output=True, text=True).stdout.split():
            q, hops = int(pid), 0
            while q > 1 and hops < 30:
                if q == root:
                    out.append(int(pid)); break
                q = _ppid(q); hops += 1
    except Exception:
        pass
    return out


def cbmc_rss_kb(sid):
    tot = 0
    for pid in cbmc_pids(sid):
        try:
            for line in open('/proc/%d/status' % pid):
                if line.startswith('VmRSS:'):
                    tot = max(tot, int(line.split()[1]))
        except Exception:
            pass
    return tot


def run_guarded(cmd, cwd, env, timeout):
    """run cargo kani in its own session, with a wall-clock limit and an RSS watchdog on ITS cbmc (no swap here)"""
    import tempfile as _tf, signal
    outf = _tf.TemporaryFile(mode='w+')
    p = subprocess.Popen(cmd, cwd=cwd, env=env, stdout=outf, stderr=subprocess.STDOUT, text=True, start_new_session=True)
    t0 = time.time()
    timed_out = oom = False
    while p.poll() is None:
        time.sleep(2)
        if time.time() - t0 > timeout:
            timed_out = True
        elif cbmc_rss_kb(p.pid) > RSS_LIMIT_KB:
            oom = True
        if timed_out or oom:
            for cp in cbmc_pids(p.pid):
                try:
                    os.kill(cp, signal.SIGKILL)
                except OSError:
                    pass
            try:
                os.killpg(p.pid, signal.SIGTERM)
            except OSError:
                pass
            try:
                p.wait(timeout=20)
            except subprocess.TimeoutExpired:
                try:
                    os.killpg(p.pid, signal.SIGKILL)
                except OSError:
                    pass
            break
    outf.seek(0)
    out = outf.read()
    outf.close()
    return out, timed_out, oom


def concrete_playback(scratch, env, fn):
    """Ask Kani for a concrete counterexample, have it written into the scratch copy as a unit test and run
    that test against the real code (`cargo kani playback`).  Best effort."""
    res = dict(concrete=None, replayed=None)
    try:
        p = subprocess.run(['cargo', 'kani', '-Z', 'function-contracts', '-Z', 'concrete-playback', '--concrete-playback=inplace',
                            '--exact', '--harness', fn], cwd=scratch, env=env, capture_output=True, text=True, timeout=TIMEOUT_S)
        m = re.search(r'- (kani_concrete_playback_\w+)', p.stdout)
        if not m:
            return res
        test = m.group(1)
        # the generated test text
        for root, _, files in os.walk(os.path.join(scratch, 'src')):
            for f in files:
                t = open(os.path.join(root, f)).read()
                i = t.find('fn %s' % test)
                if i >= 0:
                    j = t.find('kani::concrete_playback_run', i)
                    k = t.find('\n', j)
                    res['concrete'] = t[max(0, t.rfind('#[test]', 0, i)):k + 1] + '}'
                    vals = re.findall(r'vec!\[([0-9, ]*)\],', t[i:k])
                    try:
                        flat = [int(x) for v in vals for x in v.split(',') if x.strip()]
                        res['concrete_bytes'] = flat
                        res['concrete_ascii'] = ''.join(chr(b) if 32 <= b < 127 else '\\x%02x' % b for b in flat)
                    except Exception:
                        pass
        q = subprocess.run(['cargo', 'kani', 'playback', '-Z', 'concrete-playback', '--', test], cwd=scratch, env=env,
                           capture_output=True, text=True, timeout=TIMEOUT_S)
        out = q.stdout + q.stderr
        lines = out.split('\n')
        keep = []
        for i, l in enumerate(lines):
            if 'panicked at' in l:
                keep += lines[i:i + 4]
        tr = re.search(r'test result: .*', out)
        res['replayed'] = dict(cmd='cargo kani playback -Z concrete-playback -- %s' % test, panic='\n'.join(keep)[:1500],
                               result=tr.group(0) if tr else '')
    except Exception as e:
        res['replayed'] = dict(error=str(e))
    return res


def write_replay(verif, prop, k):
    d = os.path.join(verif, 'replays')
    os.makedirs(d, exist_ok=True)
    p = os.path.join(d, '%s-%s.json' % (prop, k['name']))
    rec = dict(property=prop, obligation=k['name'], harness=k['harness'], verifier=('native enumeration (cargo test)' if k.get('backend') else 'kani'), verifier_cmd=k['cmd'],
               failed_checks=k.get('failed_checks'), verifier_output=k.get('output_tail'), counterexample=k.get('concrete'),
               counterexample_bytes=k.get('concrete_bytes'), counterexample_ascii=k.get('concrete_ascii'),
               replayed_against_real_code=k.get('replayed'),
               note=('the enumeration runs the real code: the failing case is in failed_checks' if k.get('backend') else
                     'concrete playback test below reproduces the failure against the real code (cargo kani --concrete-playback=print)')
                    if k.get('concrete') else 'no-failing-input-found')
    with open(p, 'w') as f:
        json.dump(rec, f, indent=1)
    return p


def narrow_tagged(rec, prop, known=None):
    """A tagged enumeration (E-hist) reports failing cases with the ids of the properties they contradict.  For the check of `prop` only
    the cases tagged `prop` count; the others are listed as a note.  Returns the record, narrowed in place."""
    if 'tagged_fails' not in rec or rec.get('status') != 'FAILURE':
        return rec
    mine = [t for t in rec['tagged_fails'] if prop in t['tags']]
    # known findings (known_findings.txt: `finding: property=<id> harness=<name> match=<literal text> ...`): failing cases whose line contains
    # the literal are reported as KNOWN-FINDING, not as violations; any other failing case of the same property still is a violation
    known = [k for k in (known or []) if k.get('property') == prop and k.get('harness') == rec['name'] and k.get('match')]
    rec['known_findings'] = []
    for k in known:
        lits = k['match'].split('&&')      # every literal must occur in the report of the failing case
        hit = [t for t in mine if all(l_ in t['line'] for l_ in lits)]
        if hit:
            rec['known_findings'].append(dict(finding=k['text'], cases=len(hit), first=hit[0]['line'][:700]))
            mine = [t for t in mine if not all(l_ in t['line'] for l_ in lits)]
    other = [t for t in rec['tagged_fails'] if prop not in t['tags']]
    rec['other_properties_failing'] = sorted(set(x for t in other for x in t['tags']))
    if not rec['tagged_fails']:
        # the test failed without a tagged line (harness panic outside a history): tool condition, not a verdict
        rec['status'] = 'TOOL'
        return rec
    if not mine:
        rec['status'] = 'SUCCESS'
        rec['note'] = ('only the listed known finding(s) fail for %s' % prop) if rec['known_findings'] else 'failing cases exist but none contradicts %s (they concern %s)' % (prop, ', '.join(rec['other_properties_failing']))
        for k in ('failed_checks', 'concrete', 'replayed'):
            rec.pop(k, None)
        return rec
    rec['failed_checks'] = mine[0]['line']
    rec['concrete'] = 'failing history reported by the enumeration itself (it runs the real code): ' + mine[0]['line']
    rec['all_failing_cases_for_this_property'] = [t['line'] for t in mine]
    rec['replayed'] = dict(cmd=rec['cmd'] + '   (in a copy of /repo with /verif/enum/*.rs appended)', failing_history=mine[0]['line'])
    return rec
