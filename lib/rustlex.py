"""Minimal Rust lexer + item splitter, enough to brace-match and locate items, fn
signatures, bodies and loops in /repo/src.  It does not build an AST: everything the
generator copies is copied as source text, token for token.
"""
import re
from dataclasses import dataclass, field
from typing import List, Optional

IDENT_RE = re.compile(r'[A-Za-z_][A-Za-z0-9_]*')
NUM_RE = re.compile(r'[0-9][0-9A-Za-z_]*(\.[0-9][0-9A-Za-z_]*)?')
RAW_STR_RE = re.compile(r'b?r(#*)"')
MULTI_PUNCT = ['..=', '...', '<<=', '>>=', '->', '=>', '::', '..', '==', '!=', '<=', '>=', '&&', '||',
               '+=', '-=', '*=', '/=', '%=', '^=', '&=', '|=', '<<', '>>']


class LexError(Exception):
    pass


@dataclass
class Tok:
    kind: str     # ws comment str char lifetime ident num punct
    text: str
    start: int
    end: int


def lex(src: str) -> List[Tok]:
    toks = []
    i, n = 0, len(src)
    while i < n:
        c = src[i]
        if c.isspace():
            j = i + 1
            while j < n and src[j].isspace():
                j += 1
            toks.append(Tok('ws', src[i:j], i, j)); i = j; continue
        if src.startswith('//', i):
            j = src.find('\n', i)
            if j < 0:
                j = n
            toks.append(Tok('comment', src[i:j], i, j)); i = j; continue
        if src.startswith('/*', i):
            depth, j = 1, i + 2
            while j < n and depth:
                if src.startswith('/*', j):
                    depth += 1; j += 2
                elif src.startswith('*/', j):
                    depth -= 1; j += 2
                else:
                    j += 1
            if depth:
                raise LexError('unterminated block comment')
            toks.append(Tok('comment', src[i:j], i, j)); i = j; continue
        m = RAW_STR_RE.match(src, i)
        if m:
            close = '"' + m.group(1)
            j = src.find(close, m.end())
            if j < 0:
                raise LexError('unterminated raw string')
            j += len(close)
            toks.append(Tok('str', src[i:j], i, j)); i = j; continue
        if c == '"' or (c == 'b' and i + 1 < n and src[i + 1] == '"'):
            j = i + (2 if c == 'b' else 1)
            while j < n and src[j] != '"':
                j += 2 if src[j] == '\\' else 1
            if j >= n:
                raise LexError('unterminated string')
            j += 1
            toks.append(Tok('str', src[i:j], i, j)); i = j; continue
        if c == "'" or (c == 'b' and i + 1 < n and src[i + 1] == "'"):
            k = i + (1 if c == 'b' else 0)
            # char literal or lifetime?
            if k + 1 < n and src[k + 1] == '\\':
                j = k + 2
                while j < n and src[j] != "'":
                    j += 1
                j += 1
                toks.append(Tok('char', src[i:j], i, j)); i = j; continue
            if k + 2 < n and src[k + 2] == "'":
                j = k + 3
                toks.append(Tok('char', src[i:j], i, j)); i = j; continue
            m = IDENT_RE.match(src, k + 1)
            if m and c == "'":
                toks.append(Tok('lifetime', src[i:m.end()], i, m.end())); i = m.end(); continue
            # non-ascii char literal such as 'é'
            j = src.find("'", k + 1)
            if j < 0 or j - k > 6:
                raise LexError("bad char literal at %d" % i)
            j += 1
            toks.append(Tok('char', src[i:j], i, j)); i = j; continue
        m = IDENT_RE.match(src, i)
        if m:
            toks.append(Tok('ident', m.group(0), i, m.end())); i = m.end(); continue
        m = NUM_RE.match(src, i)
        if m:
            # do not swallow `..` of a range after an integer: `0..3`
            txt = m.group(0)
            if m.group(1) is None and src.startswith('..', m.end() - 0):
                pass
            if '.' in txt and src.startswith('..', i + txt.index('.')):
                txt = txt[:txt.index('.')]
            toks.append(Tok('num', txt, i, i + len(txt))); i += len(txt); continue
        for p in MULTI_PUNCT:
            if src.startswith(p, i):
                toks.append(Tok('punct', p, i, i + len(p))); i += len(p); break
        else:
            toks.append(Tok('punct', c, i, i + 1)); i += 1
    return toks


def sig(toks: List[Tok]) -> List[int]:
    """indices of significant tokens"""
    return [k for k, t in enumerate(toks) if t.kind not in ('ws', 'comment')]


OPEN = {'(': ')', '[': ']', '{': '}'}
CLOSE = {')', ']', '}'}


def match_close(toks: List[Tok], k: int) -> int:
    """toks[k] is an opening bracket; return index of its closing bracket"""
    depth = 0
    for j in range(k, len(toks)):
        t = toks[j]
        if t.kind == 'punct':
            if t.text in OPEN:
                depth += 1
            elif t.text in CLOSE:
                depth -= 1
                if depth == 0:
                    return j
    raise LexError('unbalanced bracket at offset %d' % toks[k].start)


ITEM_KW = {'fn', 'struct', 'enum', 'trait', 'impl', 'mod', 'use', 'const', 'static', 'type', 'union',
           'macro_rules', 'extern'}
QUALIFIERS = {'pub', 'unsafe', 'async', 'default', 'extern', 'const'}


@dataclass
class Item:
    kind: str                 # fn struct enum trait impl mod use const static type macro other
    name: str                 # identifier (impl: normalised header)
    start: int                # offset of first attr/doc comment
    end: int                  # offset one past the end
    attrs: List[str] = field(default_factory=list)   # attribute texts
    head_start: int = 0       # offset where the item proper (after attrs/doc) starts
    body_open: Optional[int] = None   # offset of '{' of the body (fn/impl/trait/mod/struct) if any
    body_close: Optional[int] = None  # offset of matching '}'
    children: List['Item'] = field(default_factory=list)
    header: str = ''          # text from head_start to body_open (or to end)
    impl_trait: Optional[str] = None
    impl_type: Optional[str] = None
    has_body: bool = False


def _norm(s: str) -> str:
    return re.sub(r'\s+', ' ', s).strip()


def parse_items(src: str, lo: int = 0, hi: Optional[int] = None, toks: Optional[List[Tok]] = None) -> List[Item]:
    """Split src[lo:hi] (a module / impl / trait body) into items."""
    if toks is None:
        toks = lex(src)
    if hi is None:
        hi = len(src)
    idx = [k for k in sig(toks) if lo <= toks[k].start < hi]
    items = []
    p = 0
    # doc comments are comments: we attach leading comments by tracking the previous item end
    while p < len(idx):
        k = idx[p]
        t = toks[k]
        item_first_tok = k
        attrs = []
        # attributes
        while t.kind == 'punct' and t.text == '#':
            # #[...] or #![...]
            q = p + 1
            if toks[idx[q]].text == '!':
                q += 1
            assert toks[idx[q]].text == '[', 'attribute expected at %d' % t.start
            close = match_close(toks, idx[q])
            attrs.append(src[t.start:toks[close].end])
            p = idx.index(close, p) + 1
            if p >= len(idx):
                break
            k = idx[p]; t = toks[k]
        if p >= len(idx):
            break
        head_start = t.start
        # qualifiers
        q = p
        while True:
            tt = toks[idx[q]]
            if tt.kind == 'ident' and tt.text == 'pub':
                q += 1
                if toks[idx[q]].text == '(':
                    q = idx.index(match_close(toks, idx[q]), q) + 1
                continue
            if tt.kind == 'ident' and tt.text in ('unsafe', 'async', 'default'):
                q += 1; continue
            if tt.kind == 'ident' and tt.text == 'const' and toks[idx[q + 1]].text in ('fn', 'unsafe', 'async'):
                q += 1; continue
            if tt.kind == 'ident' and tt.text == 'extern' and toks[idx[q + 1]].kind == 'str':
                q += 2; continue
            break
        kw = toks[idx[q]]
        if kw.kind != 'ident' or kw.text not in ITEM_KW:
            raise LexError('item keyword expected at offset %d: %r' % (kw.start, src[kw.start:kw.start + 40]))
        kind = kw.text
        # find end of item: first ';' or '{' at depth 0 (parens / brackets / angle ignored: braces only
        # occur as bodies in the item kinds we meet; `where` clauses and generics contain none)
        depth = 0
        r = q + 1
        body_open = body_close = None
        end_tok = None
        while r < len(idx):
            tt = toks[idx[r]]
            if tt.kind == 'punct':
                if tt.text in ('(', '['):
                    r = idx.index(match_close(toks, idx[r]), r) + 1
                    continue
                if tt.text == '{':
                    if kind in ('use',):
                        r = idx.index(match_close(toks, idx[r]), r) + 1
                        continue
                    if kind in ('const', 'static', 'type'):
                        # expression braces; skip
                        r = idx.index(match_close(toks, idx[r]), r) + 1
                        continue
                    body_open = idx[r]
                    body_close = match_close(toks, idx[r])
                    end_tok = body_close
                    break
                if tt.text == ';':
                    end_tok = idx[r]
                    break
            r += 1
        if end_tok is None:
            raise LexError('unterminated item at offset %d' % head_start)
        # tuple struct / unit struct: `struct A(..);` handled by ';'
        name_tok = toks[idx[q + 1]] if q + 1 < len(idx) else None
        name = name_tok.text if name_tok is not None and name_tok.kind == 'ident' else ''
        it = Item(kind=kind, name=name, start=toks[item_first_tok].start, end=toks[end_tok].end, attrs=attrs,
                  head_start=head_start)
        if body_open is not None:
            it.body_open = toks[body_open].start
            it.body_close = toks[body_close].start
            it.has_body = True
            it.header = src[head_start:it.body_open]
        else:
            it.header = src[head_start:it.end]
        if kind == 'impl':
            hdr = _norm(it.header)
            it.name = hdr
            # strip generics after impl
            h = hdr[4:].strip()
            if h.startswith('<'):
                d = 0
                for ci, ch in enumerate(h):
                    if ch == '<':
                        d += 1
                    elif ch == '>' and h[ci - 1] != '-':
                        d -= 1
                        if d == 0:
                            h = h[ci + 1:].strip(); break
            h = re.split(r'\bwhere\b', h)[0].strip()
            m = re.match(r'(.*?)\s+for\s+(.*)$', h)
            if m:
                it.impl_trait, it.impl_type = m.group(1).strip(), m.group(2).strip()
            else:
                it.impl_type = h
        if kind in ('impl', 'trait') and it.has_body:
            it.children = parse_items(src, it.body_open + 1, it.body_close, toks)
        if kind == 'mod' and it.has_body:
            it.children = parse_items(src, it.body_open + 1, it.body_close, toks)
        items.append(it)
        p = idx.index(end_tok, p) + 1
    return items


def type_base(ty: str) -> str:
    """`FrameReader<R>` -> `FrameReader`; `MultiRecord<'_>` -> `MultiRecord`; `&'a str` -> `&str`"""
    ty = re.sub(r"'[A-Za-z_]+\s*", '', ty)
    ty = re.sub(r'<.*>$', '', ty.strip())
    return re.sub(r'\s+', '', ty)
