"""Run Verus on the generated file and map its diagnostics back to named obligations."""
import json, os, re, subprocess, time
from dataclasses import dataclass, field
from typing import List, Dict, Optional

from gen import GenResult, ToolCondition, short

VERUS = os.environ.get('VERUS_BIN', 'verus')

TOOL_PATTERNS = [
    r'not supported', r'does not yet support', r'Verus does not', r'verus internal error',
    r'cannot call function .* with mode', r'cannot use function', r'rlimit', r'Resource limit',
    r'disallowed:', r'is not allowed', r'expected .* found', r'mismatched types', r'cannot find',
    r'unresolved', r'no method named', r'the trait bound', r'borrow', r'lifetime', r'syntax error',
    r'must have a decreases clause', r'The verifier does not', r'trait-conflict', r'Trait-Conflict',
    r'unterminated', r'expected one of', r'unexpected', r'aborting due to',
]
VC_PATTERNS = [
    r'postcondition not satisfied', r'precondition not satisfied', r'assertion failed',
    r'invariant not satisfied', r'decreases not satisfied', r'possible arithmetic underflow/overflow',
    r'possible division by zero', r'index out of bounds', r'could not prove termination', r'unwrap',
    r'recommendation not met', r'possible bit shift', r'loop invariant', r'failed this', r'might not be allowed',
    r'slice index', r'array index', r'termination', r'constructed value may fail to meet its declared type invariant',
    r'cannot show invariant', r'possible truncation', r'possible overflow', r'unable to prove',
]


@dataclass
class Failure:
    oid: str               # obligation id: clause id, or B:<fn>:<kind>
    addr: str              # function address
    kind: str              # postcondition precondition assertion invariant decreases overflow ...
    message: str
    gen_line: int
    src_file: str
    src_line: int
    tags: List[str]
    detail: str = ''       # e.g. callee clause for a failed precondition
    rendered: str = ''


@dataclass
class VerusRun:
    ok: bool
    verified: int
    errors: int
    failures: List[Failure]
    tool_errors: List[str]
    fn_times: Dict[str, dict]
    wall_s: float
    smt_ms: int
    cmd: str
    raw_json: dict = field(default_factory=dict)
    stderr: str = ''


def kind_of(msg: str) -> str:
    m = msg.lower()
    if 'post-condition' in m:
        return 'postcondition'
    for k in ('postcondition', 'precondition', 'assertion', 'invariant', 'decreases', 'overflow', 'termination',
              'index', 'division', 'unwrap', 'recommendation', 'truncation'):
        if k in m:
            return k
    return 'other'


def run_verus(gen_path: str, res: GenResult, rlimit: Optional[float] = None, multiple_errors: int = 40,
              extra: Optional[List[str]] = None, threads: int = 16, timeout: int = 1500) -> VerusRun:
    cmd = [VERUS, os.path.basename(gen_path), '--output-json', '--time', '--error-format=json',
           '--multiple-errors', str(multiple_errors), '--num-threads', str(threads)]
    if rlimit:
        cmd += ['--rlimit', str(rlimit)]
    if extra:
        cmd += extra
    t0 = time.time()
    try:
        p = subprocess.run(cmd, cwd=os.path.dirname(gen_path), capture_output=True, text=True, timeout=timeout)
    except subprocess.TimeoutExpired:
        raise ToolCondition('verus timed out after %ds' % timeout)
    wall = time.time() - t0
    try:
        js = json.loads(p.stdout) if p.stdout.strip() else {}
    except json.JSONDecodeError:
        js = {}
    diags = []
    for line in p.stderr.split('\n'):
        line = line.strip()
        if line.startswith('{'):
            try:
                d = json.loads(line)
            except json.JSONDecodeError:
                continue
            if d.get('$message_type') == 'diagnostic':
                diags.append(d)
    vr = js.get('verification-results', {})
    failures, tool_errors = [], []
    gen_name = os.path.basename(gen_path)
    for d in diags:
        if d.get('level') != 'error':
            continue
        msg = d.get('message', '')
        if msg.startswith('aborting due to'):
            continue
        is_vc = any(re.search(pt, msg) for pt in VC_PATTERNS)
        spans = d.get('spans', [])
        prim = [s for s in spans if s.get('is_primary')]
        sec = [s for s in spans if not s.get('is_primary')]
        ordered = prim + sec
        in_gen = [s for s in ordered if s.get('file_name', '').endswith(gen_name)]
        if not is_vc or not in_gen:
            tool_errors.append(msg + (' @ gen line %d' % in_gen[0]['line_start'] if in_gen else ''))
            continue
        failures.append(map_failure(res, d, msg, in_gen))
    fn_times = {}
    try:
        for m in js['times-ms']['smt']['smt-run-module-times']:
            for f in m.get('function-breakdown', []):
                fn_times[f['function']] = dict(ms=f.get('time', 0), rlimit=f.get('rlimit', 0), success=f.get('success'))
    except (KeyError, TypeError):
        pass
    smt_ms = 0
    try:
        smt_ms = js['times-ms']['smt']['total']
    except (KeyError, TypeError):
        pass
    if not vr and not failures and not tool_errors:
        tool_errors.append('verus produced no result: ' + p.stderr[-500:])
    if vr.get('encountered-vir-error'):
        if not tool_errors:
            tool_errors.append('verus reported a VIR error')
    for nm, ft in fn_times.items():
        if ft.get('success') is False and not failures and not tool_errors:
            tool_errors.append('function %s failed without a mapped diagnostic (rlimit?)' % nm)
    ok = bool(vr.get('success')) and not failures and not tool_errors
    return VerusRun(ok=ok, verified=vr.get('verified', 0), errors=vr.get('errors', 0), failures=failures,
                    tool_errors=tool_errors, fn_times=fn_times, wall_s=wall, smt_ms=smt_ms, cmd=' '.join(cmd),
                    raw_json=js, stderr=p.stderr)


def fn_at(res: GenResult, line: int):
    for f in res.fns:
        if f.gen_first and f.gen_first <= line <= f.gen_last:
            return f
    return None


def clause_at(res: GenResult, line: int):
    for (a, b, oid, tags, ckind, addr) in res.clause_ranges:
        if a <= line <= b:
            return (oid, tags, ckind, addr)
    return None


def map_failure(res: GenResult, d: dict, msg: str, spans: List[dict]) -> Failure:
    kind = kind_of(msg)
    prim = spans[0]
    line = prim['line_start']
    cl = clause_at(res, line)
    rendered = d.get('rendered', '')
    # which function is being verified?  For a failed postcondition/invariant the primary span is the
    # clause (inside the function).  For a failed precondition the primary span is the call site and a
    # secondary span is the callee's clause.
    owner = fn_at(res, line)
    detail = ''
    if kind == 'precondition':
        # primary: call site (body); secondary: callee clause
        for s in spans[1:]:
            c2 = clause_at(res, s['line_start'])
            if c2:
                detail = 'callee clause %s of %s' % (c2[0], c2[3])
                break
        cl_here = None
    else:
        cl_here = cl
    lm = res.linemap[line - 1] if 0 < line <= len(res.linemap) and res.linemap[line - 1] else {}
    if owner is None:
        # e.g. a spec-file lemma failing
        return Failure(oid='S:%s:%d' % (lm.get('f', '?'), lm.get('l', line)), addr=lm.get('f', '?'), kind=kind,
                       message=msg, gen_line=line, src_file=lm.get('f', ''), src_line=lm.get('l', 0), tags=['*'],
                       rendered=rendered)
    if cl_here and cl_here[3] == owner.addr:
        oid, tags = cl_here[0], list(cl_here[1])
        src_file, src_line = owner.src_file, owner.src_line
        # a secondary span tells where in the body the clause failed
        for s in spans[1:]:
            l2 = res.linemap[s['line_start'] - 1] if s['line_start'] <= len(res.linemap) else None
            if l2 and l2.get('o') == 'src':
                src_file, src_line = l2['f'], l2['l']; break
    else:
        oid = 'B:%s:%s' % (short(owner.addr), kind)
        tags = list(owner.tags)
        bt = getattr(owner, 'bodytags', {}).get(kind)
        if bt:
            oid, tags = bt[0], list(bt[1])
        src_file, src_line = (lm.get('f', owner.src_file), lm.get('l', owner.src_line)) if lm.get('o') == 'src' \
            else (owner.src_file, owner.src_line)
        if lm.get('o') in ('proof', 'clause'):
            # assertion inside a spliced proof block / decreases clause
            oid = lm.get('id', oid)
            for (a, b, oid2, tags2, ck, addr2) in res.clause_ranges:
                if a <= line <= b:
                    tags = list(tags2) or tags
    return Failure(oid=oid, addr=owner.addr, kind=kind, message=msg, gen_line=line, src_file=src_file,
                   src_line=src_line, tags=tags, detail=detail, rendered=rendered)
