"""selftest: apply each patch of selftest/{breaking,benign} (and seeded/*/patch.diff) to a scratch copy of
/repo, regenerate, run Verus once, and compare the properties raised with the expectation."""
import os, sys, re, subprocess, shutil, tempfile, glob, json, time
HERE = os.path.dirname(os.path.abspath(__file__))
VERIF = os.path.dirname(HERE)
sys.path.insert(0, HERE)
import gen, runner
from check import failure_props, body_similarity, load_base_tokens, split_new_function_failures


def verdict(repo):
    g = gen.Generator(repo, VERIF)
    try:
        res = g.generate()
    except (gen.ToolCondition, gen.ContractError) as e:
        return dict(tool=str(e), props=set(), obs=[])
    p = gen.write_outputs(res, os.path.join(VERIF, 'build'), name='gen_selftest')
    run = runner.run_verus(p, res, rlimit=30)
    props, obs = set(), []
    base_toks = load_base_tokens()
    reimpl = []
    kept, und, notes = split_new_function_failures(g, res, [f for f in run.failures if not f.oid.startswith('S:')])
    reimpl.extend(n[:160] for n in notes[:2])
    for f in kept:
        if f.addr in base_toks and body_similarity(g, res, f.addr, base_toks) < 0.5:
            reimpl.append('%s fails in re-implemented %s' % (f.oid, f.addr)); continue
        t = failure_props(f, res)
        props |= t
        obs.append(f.oid)
    for x in getattr(res, 'syntactic', []):
        if not x['ok']:
            props |= set(x['tags']); obs.append(x['oid'])
    tool = '; '.join(run.tool_errors + reimpl)[:300] if (run.tool_errors or reimpl) else ''
    return dict(tool=tool, props=props, obs=sorted(set(obs)))


def main():
    pats = sys.argv[1:] or sorted(glob.glob(os.path.join(VERIF, 'selftest', 'breaking', '*.diff')) +
                                 glob.glob(os.path.join(VERIF, 'selftest', 'benign', '*.diff')) +
                                 glob.glob(os.path.join(VERIF, 'seeded', '*', 'patch.diff')))
    bad = 0
    rows = []
    for pf in pats:
        exp = ''
        for line in open(pf):
            m = re.match(r'#\s*expect:\s*(.*)', line)
            if m:
                exp = m.group(1).strip()
        if not exp and os.path.exists(os.path.join(os.path.dirname(pf), 'meta.json')):
            exp = json.load(open(os.path.join(os.path.dirname(pf), 'meta.json'))).get('property', '')
        if not exp and '/seeded/' in os.path.abspath(pf):
            exp = os.path.basename(os.path.dirname(os.path.abspath(pf))).split('_')[0]
        scratch = tempfile.mkdtemp(prefix='verif_selftest_')
        try:
            subprocess.run(['rsync', '-a', '--exclude', 'target', '--exclude', '.git', '/repo/', scratch + '/'], check=True)
            body = ''.join(l for l in open(pf) if not l.startswith('# '))
            r = subprocess.run(['patch', '-p1', '-s', '-d', scratch], input=body, text=True, capture_output=True)
            if r.returncode != 0:
                mj = os.path.join(os.path.dirname(pf), 'meta.json')
                if os.path.exists(mj) and json.load(open(mj)).get('base_rev'):
                    print('%-44s SKIPPED: applies to /repo at %s only (see meta.json)' % (os.path.relpath(pf, VERIF), json.load(open(mj))['base_rev'])); continue
                print('%-40s PATCH DOES NOT APPLY: %s' % (os.path.basename(pf), r.stdout[:200])); bad += 1; continue
            v = verdict(scratch)
        finally:
            shutil.rmtree(scratch, ignore_errors=True)
        name = os.path.relpath(pf, VERIF)
        if exp == '-':
            ok = not v['props'] and not v['tool']
            status = 'quiet' if ok else ('TOOL-CONDITION (exit 2, no alarm)' if v['tool'] and not v['props'] else 'FALSE ALARM')
            if status == 'FALSE ALARM':
                bad += 1
        else:
            want = set(exp.split())
            hit = want & v['props']
            ok = bool(hit)
            status = 'caught' if ok else ('MISSED (tool condition: %s)' % v['tool'][:80] if v['tool'] else 'MISSED')
            if not ok:
                bad += 1
        print('%-44s expect=%-10s %-12s props=%s obs=%s' % (name, exp, status, sorted(v['props']), v['obs'][:4]))
        rows.append(dict(patch=name, expect=exp, status=status, props=sorted(v['props']), obligations=v['obs'], tool=v['tool']))
    json.dump(rows, open(os.path.join(VERIF, 'build', 'selftest_result.json'), 'w'), indent=1)
    print('selftest: %d patches, %d unexpected' % (len(pats), bad))
    sys.exit(1 if bad else 0)


if __name__ == '__main__':
    main()
