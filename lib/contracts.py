"""Parser for /verif/contracts/*.vspec (format: DESIGN.md 2.2b)."""
import re, glob, os
from dataclasses import dataclass, field
from typing import List, Dict, Optional, Tuple


class ContractError(Exception):
    pass


@dataclass
class Clause:
    kind: str            # requires ensures invariant invariant_except_break loop_ensures proof
    oid: str
    tags: List[str]
    text: str
    src: str = ''        # vspec file:line


@dataclass
class LoopSpec:
    n: int
    binder: Optional[str] = None
    desugar: Optional[str] = None
    clauses: List[Clause] = field(default_factory=list)
    decreases: Optional[str] = None


@dataclass
class ProofSplice:
    mode: str            # after before start replace
    regex: Optional[str]
    text: str
    oid: str
    tags: List[str]
    src: str = ''


@dataclass
class ClosureSpec:
    regex: str
    oid: str
    tags: List[str]
    params: str = ''
    ret: str = ''
    requires: List[str] = field(default_factory=list)
    ensures: List[str] = field(default_factory=list)
    src: str = ''


@dataclass
class Contract:
    addr: str
    status: str = 'verify'          # verify trusted external omitted
    bounded: Optional[str] = None   # name of Kani harness standing in
    ret: Optional[str] = None
    tags: List[str] = field(default_factory=list)
    attrs: List[str] = field(default_factory=list)
    clauses: List[Clause] = field(default_factory=list)
    decreases: Optional[str] = None
    loops: Dict[int, LoopSpec] = field(default_factory=dict)
    proofs: List[ProofSplice] = field(default_factory=list)
    closures: List[ClosureSpec] = field(default_factory=list)
    bodytags: Dict[str, tuple] = field(default_factory=dict)
    holds: List[tuple] = field(default_factory=list)   # (var, decl_regex, until_regex, oid, tags, src)
    callsites: List[tuple] = field(default_factory=list)  # (call_regex, oid, tags): this fn is the only caller
    nohandle: List[tuple] = field(default_factory=list)   # (init_regex, at_regex, oid, tags): no local initialised by <init> is alive at <at>
    order: List[tuple] = field(default_factory=list)   # (first_regex, then_regex, oid, tags): the first statement precedes the second one
    onlyholders: List[tuple] = field(default_factory=list)   # (type_regex, [struct names], oid, tags): only these structs have a field of that type
    mustcall: List[tuple] = field(default_factory=list)   # (call_regex, oid, tags): called unconditionally (top block of the body)
    sameas: Optional[tuple] = None   # (addr, regex, replacement, oid suffix, src)
    contains: List[tuple] = field(default_factory=list)   # (regex, oid, tags): the body still contains the call
    ghost: str = ''                 # ghost members appended inside the item body (struct/impl/trait)
    stub: bool = False
    after: str = ''                 # ghost items emitted right after the item
    sigghost: str = ''              # e.g. extra ghost/tracked params (unused so far)
    src: str = ''
    note: str = ''


HEAD_RE = re.compile(r'^@(\w+)\s*(.*)$')
CLAUSE_RE = re.compile(r'^(\S+)\s+\[([^\]]*)\]\s*(.*)$', re.S)


def parse_file(path: str) -> List[Contract]:
    out = []
    cur: Optional[Contract] = None
    cur_loop: Optional[LoopSpec] = None
    lines = open(path).read().split('\n')
    # group into directives: a directive line starts with '@' in column 0; following lines that do not
    # start with '@' (and are not '#' comments in column 0) are continuation lines
    groups = []
    for ln, line in enumerate(lines, 1):
        if line.startswith('@'):
            groups.append([ln, line])
        elif line.startswith('#') and not line.startswith('#['):
            continue
        else:
            if groups:
                groups[-1][1] += '\n' + line
            elif line.strip():
                raise ContractError('%s:%d: text before first directive' % (path, ln))
    for ln, text in groups:
        where = '%s:%d' % (os.path.basename(path), ln)
        first, _, rest_lines = text.partition('\n')
        m = HEAD_RE.match(first)
        if not m:
            raise ContractError('%s: bad directive' % where)
        d, arg = m.group(1), m.group(2)
        full = (arg + ('\n' + rest_lines if rest_lines else '')).rstrip()
        if d == 'item':
            if cur is not None:
                raise ContractError('%s: @item without @end' % where)
            cur = Contract(addr=arg.strip(), src=where)
            cur_loop = None
            continue
        if cur is None:
            raise ContractError('%s: directive outside @item' % where)
        if d == 'end':
            out.append(cur); cur = None; cur_loop = None
        elif d == 'status':
            a = arg.strip()
            mm = re.match(r'(\w+)(?:\s+bounded\((\S+)\))?$', a)
            if not mm or mm.group(1) not in ('verify', 'trusted', 'external', 'omitted'):
                raise ContractError('%s: bad status %r' % (where, a))
            cur.status = mm.group(1); cur.bounded = mm.group(2)
        elif d == 'stub':
            cur.stub = True
        elif d == 'ret':
            cur.ret = arg.strip()
        elif d == 'tags':
            cur.tags = arg.split()
        elif d == 'note':
            cur.note = full
        elif d == 'attr':
            cur.attrs.append(arg.strip())
        elif d in ('requires', 'ensures', 'invariant', 'invariant_except_break', 'loop_ensures'):
            mm = CLAUSE_RE.match(full)
            if not mm:
                raise ContractError('%s: clause needs `<id> [tags] expr`' % where)
            cl = Clause(kind=d, oid=mm.group(1), tags=mm.group(2).split(), text=mm.group(3).strip(), src=where)
            if d in ('requires', 'ensures'):
                cur.clauses.append(cl)
            else:
                if cur_loop is None:
                    raise ContractError('%s: loop clause outside @loop' % where)
                cur_loop.clauses.append(cl)
        elif d == 'decreases':
            if cur_loop is not None:
                cur_loop.decreases = full.strip()
            else:
                cur.decreases = full.strip()
        elif d == 'fndecreases':
            cur.decreases = full.strip()
        elif d == 'loop':
            n = int(arg.strip())
            cur_loop = LoopSpec(n=n)
            cur.loops[n] = cur_loop
        elif d == 'endloop':
            cur_loop = None
        elif d == 'binder':
            cur_loop.binder = arg.strip()
        elif d == 'desugar':
            cur_loop.desugar = arg.strip()
        elif d == 'proof':
            cur_loop = None
            mm = re.match(r'(after|before|replace|tail)\s+/(.*)/\s+(\S+)\s+\[([^\]]*)\]\s*$', arg) or \
                 re.match(r'(start)()\s+(\S+)\s+\[([^\]]*)\]\s*$', arg) or \
                 re.match(r'(loophead|loopbody|loopend|loopinit)\s+(\d+)\s+(\S+)\s+\[([^\]]*)\]\s*$', arg)
            if not mm:
                raise ContractError('%s: @proof after|before /re/ <id> [tags]  or  @proof start <id> [tags]' % where)
            cur.proofs.append(ProofSplice(mode=mm.group(1), regex=mm.group(2) or None, text=rest_lines,
                                          oid=mm.group(3), tags=mm.group(4).split(), src=where))
        elif d == 'closure':
            cur_loop = None
            mm = re.match(r'/(.*)/\s+(\S+)\s+\[([^\]]*)\]\s*$', arg)
            if not mm:
                raise ContractError('%s: @closure /re(params)(body)/ <id> [tags]' % where)
            cs = ClosureSpec(regex=mm.group(1), oid=mm.group(2), tags=mm.group(3).split(), src=where)
            for l in rest_lines.split('\n'):
                l = l.strip()
                if not l:
                    continue
                k, _, v = l.partition(' ')
                if k == 'params':
                    cs.params = v.strip()
                elif k == 'ret':
                    cs.ret = v.strip()
                elif k == 'requires':
                    cs.requires.append(v.strip())
                elif k == 'ensures':
                    cs.ensures.append(v.strip())
                else:
                    raise ContractError('%s: bad @closure line %r' % (where, l))
            cur.closures.append(cs)
        elif d == 'holds':
            mm = re.match(r'(\w+)\s+from\s+/(.*?)/\s+until\s+/(.*)/\s+(\S+)\s+\[([^\]]*)\]\s*$', arg)
            if not mm:
                raise ContractError('%s: @holds <var> from /re/ until /re/ <id> [tags]' % where)
            cur.holds.append((mm.group(1), mm.group(2), mm.group(3), mm.group(4), mm.group(5).split(), where))
        elif d == 'order':
            mm = re.match(r'/(.*?)/\s+before\s+/(.*)/\s+(\S+)\s+\[([^\]]*)\]\s*$', arg)
            if not mm:
                raise ContractError('%s: @order /first-regex/ before /then-regex/ <id> [tags]' % where)
            cur.order.append((mm.group(1), mm.group(2), mm.group(3), mm.group(4).split()))
        elif d == 'onlyholders':
            mm = re.match(r'/(.*?)/\s+in\s+([A-Za-z0-9_,\s]+?)\s+(\S+)\s+\[([^\]]*)\]\s*$', arg)
            if not mm:
                raise ContractError('%s: @onlyholders /type-regex/ in StructA, StructB <id> [tags]' % where)
            cur.onlyholders.append((mm.group(1), [x.strip() for x in mm.group(2).split(',') if x.strip()], mm.group(3), mm.group(4).split()))
        elif d == 'nohandle':
            mm = re.match(r'/(.*?)/\s+at\s+/(.*)/\s+(\S+)\s+\[([^\]]*)\]\s*$', arg)
            if not mm:
                raise ContractError('%s: @nohandle /init-regex/ at /stmt-regex/ <id> [tags]' % where)
            cur.nohandle.append((mm.group(1), mm.group(2), mm.group(3), mm.group(4).split()))
        elif d == 'mustcall':
            mm = re.match(r'/(.*)/\s+(\S+)\s+\[([^\]]*)\]\s*$', arg)
            if not mm:
                raise ContractError('%s: @mustcall /call-regex/ <id> [tags]' % where)
            cur.mustcall.append((mm.group(1), mm.group(2), mm.group(3).split()))
        elif d == 'sameas':
            # @sameas <addr> /regex/ -> /replacement/ <suffix>: take over the requires/ensures of another item, textually substituted
            mm = re.match(r'(\S+)\s+/(.*?)/\s*->\s*/(.*?)/\s+(\S+)\s*$', arg)
            if not mm:
                raise ContractError('%s: @sameas <addr> /regex/ -> /replacement/ <oid-suffix>' % where)
            cur.sameas = (mm.group(1), [(mm.group(2), mm.group(3))], None, mm.group(4), where)
        elif d == 'subst':
            mm = re.match(r'/(.*?)/\s*->\s*/(.*?)/\s*$', arg)
            if not mm or not cur.sameas:
                raise ContractError('%s: @subst /regex/ -> /replacement/ (after @sameas)' % where)
            cur.sameas[1].append((mm.group(1), mm.group(2)))
        elif d == 'contains':
            mm = re.match(r'/(.*)/\s+(\S+)\s+\[([^\]]*)\]\s*$', arg)
            if not mm:
                raise ContractError('%s: @contains /call-regex/ <id> [tags]' % where)
            cur.contains.append((mm.group(1), mm.group(2), mm.group(3).split()))
        elif d == 'onlycaller':
            mm = re.match(r'/(.*)/\s+(\S+)\s+\[([^\]]*)\]\s*$', arg)
            if not mm:
                raise ContractError('%s: @onlycaller /call-regex/ <id> [tags]' % where)
            cur.callsites.append((mm.group(1), mm.group(2), mm.group(3).split()))
        elif d == 'bodytag':
            mm = re.match(r'(\w+)\s+(\S+)\s+\[([^\]]*)\]\s*$', arg)
            if not mm:
                raise ContractError('%s: @bodytag <kind> <id> [tags]' % where)
            cur.bodytags[mm.group(1)] = (mm.group(2), mm.group(3).split())
        elif d == 'ghost':
            cur.ghost += rest_lines + '\n'
        elif d == 'after':
            cur.after += rest_lines + '\n'
        else:
            raise ContractError('%s: unknown directive @%s' % (where, d))
    if cur is not None:
        raise ContractError('%s: missing @end for %s' % (path, cur.addr))
    return out


def load_dir(d: str) -> Dict[str, Contract]:
    table = {}
    for p in sorted(glob.glob(os.path.join(d, '*.vspec'))):
        for c in parse_file(p):
            if c.addr in table:
                raise ContractError('duplicate contract for %s (%s, %s)' % (c.addr, table[c.addr].src, c.src))
            table[c.addr] = c
    for c in table.values():
        if c.sameas:
            addr, subs, _unused, suf, where = c.sameas
            if addr not in table:
                raise ContractError('%s: @sameas names unknown item %s' % (where, addr))
            src = table[addr]

            def sub_all(t):
                for pat, rep in subs:
                    t = re.sub(pat, rep, t)
                return t
            copied = [Clause(kind=cl.kind, oid=cl.oid + suf, tags=list(cl.tags), text=sub_all(cl.text), src=where)
                      for cl in src.clauses if cl.kind in ('requires', 'ensures')]
            c.clauses = copied + c.clauses
            if c.ret is None:
                c.ret = src.ret
    return table
