// L-C18: queue isolation across a restart, at the level of the replay rule (spec level only: no repo code).
// `open` is verified to return replay_log(blocks of the WAL files) (O-C01-open-replay), and replay_log is the replay rule folded over the
// entries the reading rule delivers (vdamage::lemma_replay_log_is_fold).  Here: for ANY sequence of WAL entries, the state of queue k after the
// replay is the state after replaying ONLY the entries addressed to k -- "removing from a history all calls addressed to other queues leaves a
// queue's observable content unchanged", for whatever the other queues' entries are (appends, truncations, deletions, position records written by
// the GC, undecodable entries) and whatever order they are interleaved in.
use vstd::prelude::*;
use crate::vspec::*;
use crate::vdamage::*;
verus! {

/// the two states show the same thing for queue k: same existence, same retained records and start (hence same next position)
pub open spec fn agree_on(a: LogView, b: LogView, k: String) -> bool {
    a.contains_key(k) == b.contains_key(k) && (a.contains_key(k) ==> a[k] == b[k])
}

/// the decodable entries addressed to queue k, in order
pub open spec fn proj_entries(es: Seq<Seq<u8>>, k: String) -> Seq<Seq<u8>>
    decreases es.len(),
{
    if es.len() == 0 { Seq::empty() } else {
        let rest = proj_entries(es.skip(1), k);
        match parse_entry(es[0]) {
            Some(e) => if skey(e.queue) == k { seq![es[0]] + rest } else { rest },
            None => rest,
        }
    }
}

/// frame: replaying a batch into queue k2 does not touch queue k
proof fn lemma_items_frame(v: LogView, k2: String, items: Seq<(u64, Seq<u8>)>, k: String)
    requires k2 != k, replay_items(v, k2, items) is Some,
    ensures agree_on(v, replay_items(v, k2, items).unwrap(), k),
    decreases items.len(),
{
    if items.len() > 0 {
        let v1 = v.insert(k2, v[k2].append(items[0].0, items[0].1));
        lemma_items_frame(v1, k2, items.skip(1), k);
    }
}

/// locality: replaying a batch into queue k depends on the state of queue k only
proof fn lemma_items_local(v: LogView, w: LogView, k: String, items: Seq<(u64, Seq<u8>)>)
    requires agree_on(v, w, k), replay_items(v, k, items) is Some,
    ensures replay_items(w, k, items) is Some, agree_on(replay_items(v, k, items).unwrap(), replay_items(w, k, items).unwrap(), k),
    decreases items.len(),
{
    if items.len() > 0 {
        let v1 = v.insert(k, v[k].append(items[0].0, items[0].1));
        let w1 = w.insert(k, w[k].append(items[0].0, items[0].1));
        lemma_items_local(v1, w1, k, items.skip(1));
    }
}

/// frame: an entry addressed to another queue leaves queue k as it was
pub proof fn lemma_entry_frame(v: LogView, e: EntryView, k: String)
    requires skey(e.queue) != k, replay_entry(v, e) is Some,
    ensures agree_on(v, replay_entry(v, e).unwrap(), k),
{
    let k2 = skey(e.queue);
    if e.kind == 4 {
        let v1 = if !v.contains_key(k2) { log_ack(v, k2, e.position) } else { v };
        assert(agree_on(v, v1, k));
        lemma_items_frame(v1, k2, parse_items(e.body).unwrap(), k);
    }
}

/// locality: what an entry addressed to queue k does to queue k depends on the state of queue k only
pub proof fn lemma_entry_local(v: LogView, w: LogView, e: EntryView, k: String)
    requires skey(e.queue) == k, agree_on(v, w, k), replay_entry(v, e) is Some,
    ensures replay_entry(w, e) is Some, agree_on(replay_entry(v, e).unwrap(), replay_entry(w, e).unwrap(), k),
{
    if e.kind == 4 {
        let v1 = if !v.contains_key(k) { log_ack(v, k, e.position) } else { v };
        let w1 = if !w.contains_key(k) { log_ack(w, k, e.position) } else { w };
        assert(agree_on(v1, w1, k));
        lemma_items_local(v1, w1, k, parse_items(e.body).unwrap());
    }
}

/// L-C18: the replay of ANY entry sequence shows, for queue k, exactly what the replay of k's own entries shows
pub proof fn lemma_replay_isolation(es: Seq<Seq<u8>>, v: LogView, w: LogView, k: String)
    requires agree_on(v, w, k), replay_bytes(es, v) is Some,
    ensures
        replay_bytes(proj_entries(es, k), w) is Some,
        agree_on(replay_bytes(es, v).unwrap(), replay_bytes(proj_entries(es, k), w).unwrap(), k),
    decreases es.len(),
{
    if es.len() > 0 {
        let rest = es.skip(1);
        match parse_entry(es[0]) {
            None => { lemma_replay_isolation(rest, v, w, k); },
            Some(e) => {
                let v1 = replay_entry(v, e).unwrap();
                if skey(e.queue) == k {
                    lemma_entry_local(v, w, e, k);
                    let w1 = replay_entry(w, e).unwrap();
                    lemma_replay_isolation(rest, v1, w1, k);
                    let pr = seq![es[0]] + proj_entries(rest, k);
                    assert(pr[0] == es[0]);
                    assert(pr.skip(1) =~= proj_entries(rest, k));
                } else {
                    lemma_entry_frame(v, e, k);
                    lemma_replay_isolation(rest, v1, w, k);
                }
            },
        }
    }
}

/// the same, for what `open` computes from the blocks of the WAL files: queue k's recovered state is the replay of k's own entries
pub proof fn lemma_open_isolation(blocks: Seq<Seq<u8>>, q: RdPos, within: bool, buf: Seq<u8>, v: LogView, k: String)
    requires pos_ok(blocks, q), blocks_ok(blocks), replay_log(blocks, q, within, buf, v) is Some,
    ensures
        replay_bytes(proj_entries(read_all(blocks, q, within, buf), k), v) is Some,
        agree_on(replay_log(blocks, q, within, buf, v).unwrap(), replay_bytes(proj_entries(read_all(blocks, q, within, buf), k), v).unwrap(), k),
{
    lemma_replay_log_is_fold(blocks, q, within, buf, v);
    lemma_replay_isolation(read_all(blocks, q, within, buf), v, v, k);
}

/// an entry that is not addressed to queue k (or does not decode) is not among k's entries: removing it does not change them
pub proof fn lemma_proj_remove(es: Seq<Seq<u8>>, j: int, k: String)
    requires
        0 <= j < es.len(),
        parse_entry(es[j]) matches Some(e) ==> skey(e.queue) != k,
    ensures proj_entries(es.remove(j), k) == proj_entries(es, k),
    decreases es.len(),
{
    if j == 0 {
        assert(es.remove(0) =~= es.skip(1));
    } else {
        let r = es.remove(j);
        assert(r[0] == es[0]);
        assert(r.skip(1) =~= es.skip(1).remove(j - 1));
        assert(es.skip(1)[j - 1] == es[j]);
        lemma_proj_remove(es.skip(1), j - 1, k);
    }
}

/// L-C09/C18 (other queues): when one WAL entry is lost (its frame damaged: vdamage::lemma_one_damaged_entry_replay) and recovery still succeeds,
/// every queue OTHER than the one the lost entry was addressed to is recovered exactly as without the damage -- existence, retained records, next position
pub proof fn lemma_lost_entry_other_queues(es: Seq<Seq<u8>>, j: int, v: LogView, k: String)
    requires
        0 <= j < es.len(),
        parse_entry(es[j]) matches Some(e) ==> skey(e.queue) != k,
        replay_bytes(es, v) is Some,
        replay_bytes(es.remove(j), v) is Some,
    ensures agree_on(replay_bytes(es, v).unwrap(), replay_bytes(es.remove(j), v).unwrap(), k),
{
    lemma_proj_remove(es, j, k);
    lemma_replay_isolation(es, v, v, k);
    lemma_replay_isolation(es.remove(j), v, v, k);
}

} // verus!
