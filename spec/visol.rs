// L-C18: queue isolation across a restart, at the level of the replay rule (spec level only: no repo code).
// `open` is verified to return replay_log(blocks of the WAL files) (O-C01-open-replay), and replay_log is the replay rule folded over the
// entries the reading rule delivers (vdamage::lemma_replay_log_is_fold).  Here: for ANY sequence of WAL entries, the state of queue k after the
// replay is the state after replaying ONLY the entries addressed to k -- "removing from a history all calls addressed to other queues leaves a
// queue's observable content unchanged", for whatever the other queues' entries are (appends, truncations, deletions, position records written by
// the GC, undecodable entries) and whatever order they are interleaved in.
use vstd::prelude::*;
use crate::vspec::*;
use crate::vdamage::*;
verus! {

/// the two states show the same thing for queue k: same existence, same retained records and start (hence same next position)
pub open spec fn agree_on(a: LogView, b: LogView, k: String) -> bool {
    a.contains_key(k) == b.contains_key(k) && (a.contains_key(k) ==> a[k] == b[k])
}

/// the decodable entries addressed to queue k, in order
pub open spec fn proj_entries(es: Seq<Seq<u8>>, k: String) -> Seq<Seq<u8>>
    decreases es.len(),
{
    if es.len() == 0 { Seq::empty() } else {
        let rest = proj_entries(es.skip(1), k);
        match parse_entry(es[0]) {
            Some(e) => if skey(e.queue) == k { seq![es[0]] + rest } else { rest },
            None => rest,
        }
    }
}

/// frame: replaying a batch into queue k2 does not touch queue k
proof fn lemma_items_frame(v: LogView, k2: String, items: Seq<(u64, Seq<u8>)>, k: String)
    requires k2 != k, replay_items(v, k2, items) is Some,
    ensures agree_on(v, replay_items(v, k2, items).unwrap(), k),
    decreases items.len(),
{
    if items.len() > 0 {
        let v1 = v.insert(k2, v[k2].append(items[0].0, items[0].1));
        lemma_items_frame(v1, k2, items.skip(1), k);
    }
}

/// locality: replaying a batch into queue k depends on the state of queue k only
proof fn lemma_items_local(v: LogView, w: LogView, k: String, items: Seq<(u64, Seq<u8>)>)
    requires agree_on(v, w, k), replay_items(v, k, items) is Some,
    ensures replay_items(w, k, items) is Some, agree_on(replay_items(v, k, items).unwrap(), replay_items(w, k, items).unwrap(), k),
    decreases items.len(),
{
    if items.len() > 0 {
        let v1 = v.insert(k, v[k].append(items[0].0, items[0].1));
        let w1 = w.insert(k, w[k].append(items[0].0, items[0].1));
        lemma_items_local(v1, w1, k, items.skip(1));
    }
}

/// frame: an entry addressed to another queue leaves queue k as it was
pub proof fn lemma_entry_frame(v: LogView, e: EntryView, k: String)
    requires skey(e.queue) != k, replay_entry(v, e) is Some,
    ensures agree_on(v, replay_entry(v, e).unwrap(), k),
{
    let k2 = skey(e.queue);
    if e.kind == 4 {
        let v1 = if !v.contains_key(k2) { log_ack(v, k2, e.position) } else { v };
        assert(agree_on(v, v1, k));
        lemma_items_frame(v1, k2, parse_items(e.body).unwrap(), k);
    }
}

/// locality: what an entry addressed to queue k does to queue k depends on the state of queue k only
pub proof fn lemma_entry_local(v: LogView, w: LogView, e: EntryView, k: String)
    requires skey(e.queue) == k, agree_on(v, w, k), replay_entry(v, e) is Some,
    ensures replay_entry(w, e) is Some, agree_on(replay_entry(v, e).unwrap(), replay_entry(w, e).unwrap(), k),
{
    if e.kind == 4 {
        let v1 = if !v.contains_key(k) { log_ack(v, k, e.position) } else { v };
        let w1 = if !w.contains_key(k) { log_ack(w, k, e.position) } else { w };
        assert(agree_on(v1, w1, k));
        lemma_items_local(v1, w1, k, parse_items(e.body).unwrap());
    }
}

/// L-C18: the replay of ANY entry sequence shows, for queue k, exactly what the replay of k's own entries shows
pub proof fn lemma_replay_isolation(es: Seq<Seq<u8>>, v: LogView, w: LogView, k: String)
    requires agree_on(v, w, k), replay_bytes(es, v) is Some,
    ensures
        replay_bytes(proj_entries(es, k), w) is Some,
        agree_on(replay_bytes(es, v).unwrap(), replay_bytes(proj_entries(es, k), w).unwrap(), k),
    decreases es.len(),
{
    if es.len() > 0 {
        let rest = es.skip(1);
        match parse_entry(es[0]) {
            None => { lemma_replay_isolation(rest, v, w, k); },
            Some(e) => {
                let v1 = replay_entry(v, e).unwrap();
                if skey(e.queue) == k {
                    lemma_entry_local(v, w, e, k);
                    let w1 = replay_entry(w, e).unwrap();
                    lemma_replay_isolation(rest, v1, w1, k);
                    let pr = seq![es[0]] + proj_entries(rest, k);
                    assert(pr[0] == es[0]);
                    assert(pr.skip(1) =~= proj_entries(rest, k));
                } else {
                    lemma_entry_frame(v, e, k);
                    lemma_replay_isolation(rest, v1, w, k);
                }
            },
        }
    }
}

/// the same, for what `open` computes from the blocks of the WAL files: queue k's recovered state is the replay of k's own entries
pub proof fn lemma_open_isolation(blocks: Seq<Seq<u8>>, q: RdPos, within: bool, buf: Seq<u8>, v: LogView, k: String)
    requires pos_ok(blocks, q), blocks_ok(blocks), replay_log(blocks, q, within, buf, v) is Some,
    ensures
        replay_bytes(proj_entries(read_all(blocks, q, within, buf), k), v) is Some,
        agree_on(replay_log(blocks, q, within, buf, v).unwrap(), replay_bytes(proj_entries(read_all(blocks, q, within, buf), k), v).unwrap(), k),
{
    lemma_replay_log_is_fold(blocks, q, within, buf, v);
    lemma_replay_isolation(read_all(blocks, q, within, buf), v, v, k);
}

/// an entry that is not addressed to queue k (or does not decode) is not among k's entries: removing it does not change them
pub proof fn lemma_proj_remove(es: Seq<Seq<u8>>, j: int, k: String)
    requires
        0 <= j < es.len(),
        parse_entry(es[j]) matches Some(e) ==> skey(e.queue) != k,
    ensures proj_entries(es.remove(j), k) == proj_entries(es, k),
    decreases es.len(),
{
    if j == 0 {
        assert(es.remove(0) =~= es.skip(1));
    } else {
        let r = es.remove(j);
        assert(r[0] == es[0]);
        assert(r.skip(1) =~= es.skip(1).remove(j - 1));
        assert(es.skip(1)[j - 1] == es[j]);
        lemma_proj_remove(es.skip(1), j - 1, k);
    }
}

/// L-C09/C18 (other queues): when one WAL entry is lost (its frame damaged: vdamage::lemma_one_damaged_entry_replay) and recovery still succeeds,
/// every queue OTHER than the one the lost entry was addressed to is recovered exactly as without the damage -- existence, retained records, next position
pub proof fn lemma_lost_entry_other_queues(es: Seq<Seq<u8>>, j: int, v: LogView, k: String)
    requires
        0 <= j < es.len(),
        parse_entry(es[j]) matches Some(e) ==> skey(e.queue) != k,
        replay_bytes(es, v) is Some,
        replay_bytes(es.remove(j), v) is Some,
    ensures agree_on(replay_bytes(es, v).unwrap(), replay_bytes(es.remove(j), v).unwrap(), k),
{
    lemma_proj_remove(es, j, k);
    lemma_replay_isolation(es, v, v, k);
    lemma_replay_isolation(es.remove(j), v, v, k);
}

// ------------------------------------------------------------------------------------------------------------------------------------
// The SAME queue: when one entry addressed to queue k is lost, every record of k that was not written by the lost entry and is retained
// in the intact run is retained in the damaged run as well (provided recovery succeeds in both).

/// records in strictly increasing positions, none before `start`
pub open spec fn ord(q: QView) -> bool {
    &&& forall|i: int, j: int| 0 <= i < j < q.recs.len() ==> q.recs[i].0 < q.recs[j].0
    &&& forall|i: int| 0 <= i < q.recs.len() ==> q.start <= (#[trigger] q.recs[i]).0
}
pub open spec fn log_ord(v: LogView) -> bool { forall|k: String| v.contains_key(k) ==> ord(#[trigger] v[k]) }

/// a sorted sequence splits at p
proof fn lemma_sorted_split(recs: Seq<(u64, Seq<u8>)>, p: u64) -> (k: int)
    requires forall|i: int, j: int| 0 <= i < j < recs.len() ==> recs[i].0 < recs[j].0,
    ensures
        0 <= k <= recs.len(),
        forall|j: int| 0 <= j < k ==> (#[trigger] recs[j]).0 <= p,
        forall|j: int| k <= j < recs.len() ==> (#[trigger] recs[j]).0 > p,
    decreases recs.len(),
{
    if recs.len() == 0 { 0 }
    else if recs.last().0 <= p { recs.len() as int }
    else {
        let k = lemma_sorted_split(recs.drop_last(), p);
        assert forall|j: int| 0 <= j < k implies (#[trigger] recs[j]).0 <= p by { assert(recs.drop_last()[j] == recs[j]); }
        assert forall|j: int| k <= j < recs.len() implies (#[trigger] recs[j]).0 > p by {
            if j < recs.len() - 1 { assert(recs.drop_last()[j] == recs[j]); }
        }
        k
    }
}

/// truncate(..=p) keeps exactly the records above p, and keeps the order
pub proof fn lemma_truncate_members(q: QView, p: u64)
    requires ord(q),
    ensures
        ord(q.truncate(p)),
        forall|r: (u64, Seq<u8>)| #![trigger q.truncate(p).recs.contains(r)] #![trigger q.recs.contains(r)]
            q.truncate(p).recs.contains(r) <==> (q.recs.contains(r) && r.0 > p),
{
    let t = q.truncate(p);
    if p < q.start {
        assert forall|r: (u64, Seq<u8>)| q.recs.contains(r) implies r.0 > p by {
            let i = choose|i: int| 0 <= i < q.recs.len() && q.recs[i] == r;
            assert(q.start <= q.recs[i].0);
        }
    } else if p + 1 >= q.next() {
        assert forall|r: (u64, Seq<u8>)| q.recs.contains(r) implies r.0 <= p by {
            let i = choose|i: int| 0 <= i < q.recs.len() && q.recs[i] == r;
            if i < q.recs.len() - 1 { assert(q.recs[i].0 < q.recs[q.recs.len() - 1].0); }
        }
        assert(t.recs.len() == 0);
    } else {
        let k = lemma_sorted_split(q.recs, p);
        lemma_split_filter(q.recs, p, k);
        assert(t.recs =~= q.recs.skip(k));
        assert forall|r: (u64, Seq<u8>)| t.recs.contains(r) <==> (q.recs.contains(r) && r.0 > p) by {
            if t.recs.contains(r) {
                let i = choose|i: int| 0 <= i < t.recs.len() && t.recs[i] == r;
                assert(q.recs[i + k] == r);
            }
            if q.recs.contains(r) && r.0 > p {
                let i = choose|i: int| 0 <= i < q.recs.len() && q.recs[i] == r;
                assert(i >= k);
                assert(t.recs[i - k] == r);
            }
        }
        assert forall|i: int| 0 <= i < t.recs.len() implies t.start <= (#[trigger] t.recs[i]).0 by { assert(t.recs[i] == q.recs[i + k]); }
        assert forall|i: int, j: int| 0 <= i < j < t.recs.len() implies t.recs[i].0 < t.recs[j].0 by {
            assert(t.recs[i] == q.recs[i + k]); assert(t.recs[j] == q.recs[j + k]);
        }
    }
}

/// replaying a batch into queue k adds exactly its items to k (when it succeeds), keeps the order, touches nothing else
pub proof fn lemma_items_members(v: LogView, k: String, items: Seq<(u64, Seq<u8>)>)
    requires v.contains_key(k), ord(v[k]), replay_items(v, k, items) is Some,
    ensures ({
        let v2 = replay_items(v, k, items).unwrap();
        &&& v2.contains_key(k)
        &&& ord(v2[k])
        &&& forall|r: (u64, Seq<u8>)| #![trigger v2[k].recs.contains(r)] #![trigger v[k].recs.contains(r)] #![trigger items.contains(r)]
                v2[k].recs.contains(r) <==> (v[k].recs.contains(r) || items.contains(r))
    }),
    decreases items.len(),
{
    if items.len() > 0 {
        let q = v[k];
        let q1 = q.append(items[0].0, items[0].1);
        let v1 = v.insert(k, q1);
        assert(items[0].0 >= q.next());
        assert(ord(q1)) by {
            assert forall|i: int, j: int| 0 <= i < j < q1.recs.len() implies q1.recs[i].0 < q1.recs[j].0 by {
                if j == q.recs.len() {
                    assert(q1.recs[i] == q.recs[i]);
                    if i < q.recs.len() - 1 { assert(q.recs[i].0 < q.recs[q.recs.len() - 1].0); }
                } else { assert(q1.recs[i] == q.recs[i]); assert(q1.recs[j] == q.recs[j]); }
            }
            assert forall|i: int| 0 <= i < q1.recs.len() implies q1.start <= (#[trigger] q1.recs[i]).0 by {
                if i < q.recs.len() { assert(q1.recs[i] == q.recs[i]); }
            }
        }
        lemma_items_members(v1, k, items.skip(1));
        let v2 = replay_items(v, k, items).unwrap();
        let v2b = replay_items(v1, k, items.skip(1)).unwrap();
        assert(v2 == v2b);
        assert forall|r: (u64, Seq<u8>)| #![trigger v2[k].recs.contains(r)] v2[k].recs.contains(r) implies (q.recs.contains(r) || items.contains(r)) by {
            assert(q1.recs.contains(r) || items.skip(1).contains(r));
            if q1.recs.contains(r) {
                let i = choose|i: int| 0 <= i < q1.recs.len() && q1.recs[i] == r;
                if i < q.recs.len() { assert(q.recs[i] == r); } else { assert(items[0] == r); }
            } else {
                let i = choose|i: int| 0 <= i < items.skip(1).len() && items.skip(1)[i] == r;
                assert(items[i + 1] == r);
            }
        }
        assert forall|r: (u64, Seq<u8>)| #![trigger q.recs.contains(r)] #![trigger items.contains(r)] (q.recs.contains(r) || items.contains(r)) implies v2[k].recs.contains(r) by {
            if q.recs.contains(r) {
                let i = choose|i: int| 0 <= i < q.recs.len() && q.recs[i] == r;
                assert(q1.recs[i] == r);
                assert(v1[k].recs.contains(r));
                assert(v2b[k].recs.contains(r));
            } else {
                let i = choose|i: int| 0 <= i < items.len() && items[i] == r;
                if i == 0 { assert(q1.recs[q.recs.len() as int] == r); assert(v1[k].recs.contains(r)); assert(v2b[k].recs.contains(r)); }
                else { assert(items.skip(1)[i - 1] == r); assert(items.skip(1).contains(r)); assert(v2b[k].recs.contains(r)); }
            }
        }
        assert(v2.contains_key(k));
        assert(ord(v2[k]));
        assert forall|r: (u64, Seq<u8>)| #![trigger v2[k].recs.contains(r)] #![trigger v[k].recs.contains(r)] #![trigger items.contains(r)]
            v2[k].recs.contains(r) <==> (v[k].recs.contains(r) || items.contains(r)) by { }
    } else {
        assert forall|r: (u64, Seq<u8>)| !items.contains(r) by { }
        assert(replay_items(v, k, items).unwrap() == v);
        assert forall|r: (u64, Seq<u8>)| #![trigger v[k].recs.contains(r)] #![trigger items.contains(r)]
            v[k].recs.contains(r) <==> (v[k].recs.contains(r) || items.contains(r)) by { }
    }
}

/// every record of queue k in `a` that is not in the lost set is a record of queue k in `b`
pub open spec fn covers_k(a: LogView, b: LogView, k: String, lost: Set<(u64, Seq<u8>)>) -> bool {
    a.contains_key(k) ==> forall|r: (u64, Seq<u8>)| #[trigger] a[k].recs.contains(r) && !lost.contains(r) ==> b.contains_key(k) && b[k].recs.contains(r)
}
pub open spec fn ord_k(a: LogView, k: String) -> bool { a.contains_key(k) ==> ord(a[k]) }

/// one replay step addressed to k keeps queue k ordered
pub proof fn lemma_entry_ord(v: LogView, e: EntryView, k: String)
    requires ord_k(v, k), replay_entry(v, e) is Some,
    ensures ord_k(replay_entry(v, e).unwrap(), k),
{
    let k2 = skey(e.queue);
    if k2 != k {
        lemma_entry_frame(v, e, k);
    } else if e.kind == 4 {
        let v1 = if !v.contains_key(k) { log_ack(v, k, e.position) } else { v };
        lemma_items_members(v1, k, parse_items(e.body).unwrap());
    } else if e.kind == 1 {
        if v.contains_key(k) { lemma_truncate_members(v[k], e.position); }
    }
}

/// the same step applied to both runs keeps "b covers a on queue k"
pub proof fn lemma_entry_covers(a: LogView, b: LogView, e: EntryView, k: String, lost: Set<(u64, Seq<u8>)>)
    requires
        covers_k(a, b, k, lost), ord_k(a, k), ord_k(b, k),
        replay_entry(a, e) is Some, replay_entry(b, e) is Some,
    ensures covers_k(replay_entry(a, e).unwrap(), replay_entry(b, e).unwrap(), k, lost),
{
    let a2 = replay_entry(a, e).unwrap();
    let b2 = replay_entry(b, e).unwrap();
    if skey(e.queue) != k {
        lemma_entry_frame(a, e, k);
        lemma_entry_frame(b, e, k);
    } else if e.kind == 4 {
        let items = parse_items(e.body).unwrap();
        let a1 = if !a.contains_key(k) { log_ack(a, k, e.position) } else { a };
        let b1 = if !b.contains_key(k) { log_ack(b, k, e.position) } else { b };
        lemma_items_members(a1, k, items);
        lemma_items_members(b1, k, items);
        assert forall|r: (u64, Seq<u8>)| #[trigger] a2[k].recs.contains(r) && !lost.contains(r) implies b2.contains_key(k) && b2[k].recs.contains(r) by {
            if a1[k].recs.contains(r) {
                assert(a.contains_key(k) && a[k].recs.contains(r));
                assert(b.contains_key(k) && b[k].recs.contains(r));
            }
        }
    } else if e.kind == 1 {
        if a.contains_key(k) { lemma_truncate_members(a[k], e.position); }
        if b.contains_key(k) { lemma_truncate_members(b[k], e.position); }
        if a.contains_key(k) {
            assert forall|r: (u64, Seq<u8>)| #[trigger] a2[k].recs.contains(r) && !lost.contains(r) implies b2.contains_key(k) && b2[k].recs.contains(r) by {
                assert(a[k].recs.contains(r) && r.0 > e.position);
            }
        }
    } else if e.kind == 2 {
        // position record: a is unchanged (then b is unchanged or ... covers a fortiori?) or a is emptied
        if a.contains_key(k) && a[k].recs.len() == 0 && a[k].next() == e.position {
            // a unchanged and empty: nothing to cover
        }
        assert(a2.contains_key(k));
        assert(a2[k].recs.len() == 0 || a2 == a);
        if a2[k].recs.len() > 0 {
            // a2 == a with records: log_ack would have reset it
            assert(false);
        }
        assert forall|r: (u64, Seq<u8>)| #[trigger] a2[k].recs.contains(r) && !lost.contains(r) implies b2.contains_key(k) && b2[k].recs.contains(r) by {
            let i = choose|i: int| 0 <= i < a2[k].recs.len() && a2[k].recs[i] == r;
        }
    }
}

/// both runs replay the SAME remaining entries: "b covers a on queue k" is kept to the end
pub proof fn lemma_replay_covers(es: Seq<Seq<u8>>, a: LogView, b: LogView, k: String, lost: Set<(u64, Seq<u8>)>)
    requires
        covers_k(a, b, k, lost), ord_k(a, k), ord_k(b, k),
        replay_bytes(es, a) is Some, replay_bytes(es, b) is Some,
    ensures covers_k(replay_bytes(es, a).unwrap(), replay_bytes(es, b).unwrap(), k, lost),
    decreases es.len(),
{
    if es.len() > 0 {
        match parse_entry(es[0]) {
            None => { lemma_replay_covers(es.skip(1), a, b, k, lost); },
            Some(e) => {
                lemma_entry_covers(a, b, e, k, lost);
                lemma_entry_ord(a, e, k);
                lemma_entry_ord(b, e, k);
                lemma_replay_covers(es.skip(1), replay_entry(a, e).unwrap(), replay_entry(b, e).unwrap(), k, lost);
            },
        }
    }
}

/// the records the entry writes (none for a truncate / position record / delete)
pub open spec fn entry_records(e: EntryView) -> Set<(u64, Seq<u8>)> {
    if e.kind == 4 { match parse_items(e.body) { Some(items) => items.to_set(), None => Set::empty() } } else { Set::empty() }
}

/// L-C09 (same queue): entry j is lost; every record the intact run retains in queue k and that entry j did not write is retained by the damaged
/// run as well -- provided recovery succeeds in both runs
pub proof fn lemma_lost_entry_same_queue(es: Seq<Seq<u8>>, j: int, v: LogView, k: String)
    requires
        0 <= j < es.len(),
        ord_k(v, k),
        replay_bytes(es, v) is Some,
        replay_bytes(es.remove(j), v) is Some,
    ensures ({
        let lost = match parse_entry(es[j]) { Some(e) => entry_records(e), None => Set::empty() };
        covers_k(replay_bytes(es, v).unwrap(), replay_bytes(es.remove(j), v).unwrap(), k, lost)
    }),
    decreases es.len(),
{
    let lost = match parse_entry(es[j]) { Some(e) => entry_records(e), None => Set::empty() };
    if j == 0 {
        assert(es.remove(0) =~= es.skip(1));
        match parse_entry(es[0]) {
            None => { lemma_replay_covers(es.skip(1), v, v, k, lost); },
            Some(e) => {
                let a = replay_entry(v, e).unwrap();
                lemma_entry_ord(v, e, k);
                // what the lost entry did to queue k: it removed records or added its own
                assert(covers_k(a, v, k, lost)) by {
                    if skey(e.queue) != k { lemma_entry_frame(v, e, k); }
                    else if e.kind == 4 {
                        let items = parse_items(e.body).unwrap();
                        let v1 = if !v.contains_key(k) { log_ack(v, k, e.position) } else { v };
                        lemma_items_members(v1, k, items);
                        assert forall|r: (u64, Seq<u8>)| #[trigger] a[k].recs.contains(r) && !lost.contains(r) implies v.contains_key(k) && v[k].recs.contains(r) by {
                            assert(!items.contains(r));
                            assert(v1[k].recs.contains(r));
                        }
                    } else if e.kind == 1 {
                        if v.contains_key(k) { lemma_truncate_members(v[k], e.position); }
                    } else if e.kind == 2 {
                        assert(a[k].recs.len() == 0 || a == v);
                    }
                }
                lemma_replay_covers(es.skip(1), a, v, k, lost);
            },
        }
    } else {
        let r = es.remove(j);
        assert(r[0] == es[0]);
        assert(r.skip(1) =~= es.skip(1).remove(j - 1));
        assert(es.skip(1)[j - 1] == es[j]);
        match parse_entry(es[0]) {
            None => { lemma_lost_entry_same_queue(es.skip(1), j - 1, v, k); },
            Some(e) => {
                lemma_entry_ord(v, e, k);
                lemma_lost_entry_same_queue(es.skip(1), j - 1, replay_entry(v, e).unwrap(), k);
            },
        }
    }
}

} // verus!
