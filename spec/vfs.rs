// Ghost model of the file system AS SEEN BY RECOVERY (read side only): what the few FS primitives of
// rolling/directory.rs return.  The primitives themselves (Directory::open, Directory::open_file, read_block,
// File::read_exact, FileTracker::next) stay trusted against contracts phrased over these ghost functions;
// RollingReader::{open, next_block, block} are then VERIFIED against the BlockRead trait contract.
// Assumption made explicit here: nobody else modifies the WAL files while `open` reads them.
use vstd::prelude::*;
use crate::vspec::*;
verus! {

/// ghost: the full 32 KiB blocks that remain to be read from an open file, from its current position
pub uninterp spec fn file_rest(f: &std::fs::File) -> Seq<Seq<u8>>;

/// ghost: the byte offset of an open file's cursor
pub uninterp spec fn file_pos(f: &std::fs::File) -> int;

/// ghost: the full 32 KiB blocks of WAL file number `n` of the directory `dir`
pub uninterp spec fn dir_file_blocks(dir: std::path::PathBuf, n: u64) -> Seq<Seq<u8>>;

// ---------------------------------------------------------------- the directory listing, as `Directory::open` sees it
/// ghost: what `read_dir(p)` yields now, in the order the OS returns it (entries or I/O errors)
pub uninterp spec fn dir_listing(p: &std::path::Path) -> Seq<std::io::Result<std::fs::DirEntry>>;
/// ghost: the entry itself (not what a symlink points to) is a regular file
pub uninterp spec fn entry_is_regular(e: &std::fs::DirEntry) -> bool;
pub uninterp spec fn ft_is_file(t: std::fs::FileType) -> bool;
pub uninterp spec fn entry_name(e: &std::fs::DirEntry) -> std::ffi::OsString;
pub uninterp spec fn os_ref(s: &std::ffi::OsString) -> &std::ffi::OsStr;
/// ghost: the name as characters, if it is valid UTF-8
pub uninterp spec fn os_utf8(s: &std::ffi::OsStr) -> Option<Seq<char>>;
pub uninterp spec fn path_buf_of(p: &std::path::Path) -> std::path::PathBuf;

pub open spec fn is_digit(c: char) -> bool { '0' <= c && c <= '9' }
pub open spec fn dec_value(s: Seq<char>) -> nat
    decreases s.len(),
{
    if s.len() == 0 { 0 } else { dec_value(s.drop_last()) * 10 + ((s.last() as u32 - '0' as u32) as nat) }
}
/// C17: a WAL file name is `wal-` followed by exactly 20 decimal digits whose value fits u64
pub open spec fn parse_wal_name(s: Seq<char>) -> Option<u64> {
    if s.len() == 24 && s.subrange(0, 4) == seq!['w', 'a', 'l', '-'] && (forall|i: int| 4 <= i < 24 ==> is_digit(#[trigger] s[i]))
        && dec_value(s.subrange(4, 24)) <= u64::MAX {
        Some(dec_value(s.subrange(4, 24)) as u64)
    } else {
        None
    }
}
/// the number a directory entry contributes to the tracker: only a regular file with a UTF-8 name of the WAL form counts
pub open spec fn entry_num(x: std::io::Result<std::fs::DirEntry>) -> Option<u64> {
    match x {
        Ok(e) => if entry_is_regular(&e) { match os_utf8(os_ref(&entry_name(&e))) { Some(s) => parse_wal_name(s), None => None } } else { None },
        Err(_) => None,
    }
}
/// the numbers of the WAL files among the listed entries
pub open spec fn nums_of(items: Seq<std::io::Result<std::fs::DirEntry>>) -> Set<u64>
    decreases items.len(),
{
    if items.len() == 0 { Set::empty() } else {
        match entry_num(items.last()) { Some(n) => nums_of(items.drop_last()).insert(n), None => nums_of(items.drop_last()) }
    }
}
/// pushing an element adds it to the set of elements
pub proof fn lemma_push_to_set(v0: Seq<u64>, v1: Seq<u64>, x: u64)
    requires v1 == v0.push(x),
    ensures v1.to_set() =~= v0.to_set().insert(x),
{
    assert forall|y: u64| v1.to_set().contains(y) <==> v0.to_set().insert(x).contains(y) by {
        if v1.contains(y) { let i = choose|i: int| 0 <= i < v1.len() && v1[i] == y; if i < v0.len() { assert(v0[i] == y); } }
        if v0.contains(y) { let i = choose|i: int| 0 <= i < v0.len() && v0[i] == y; assert(v1[i] == y); }
        if y == x { assert(v1[v0.len() as int] == y); }
    }
}

/// a block is 32 KiB
pub broadcast axiom fn axiom_dir_file_blocks_len(dir: std::path::PathBuf, n: u64, i: int)
    requires 0 <= i < dir_file_blocks(dir, n).len(),
    ensures (#[trigger] dir_file_blocks(dir, n)[i]).len() == 32768;

/// a file holds fewer than 2^48 blocks (2^63 bytes)
pub broadcast axiom fn axiom_dir_file_blocks_bound(dir: std::path::PathBuf, n: u64)
    ensures (#[trigger] dir_file_blocks(dir, n)).len() < 0x1_0000_0000_0000;

/// blocks of all tracked files (numbers in `s`) whose number is below `n`, in increasing order of file number
pub open spec fn blocks_below(dir: std::path::PathBuf, s: Set<u64>, n: nat) -> Seq<Seq<u8>>
    decreases n,
{
    if n == 0 { Seq::empty() } else {
        blocks_below(dir, s, (n - 1) as nat)
            + (if s.contains((n - 1) as u64) { dir_file_blocks(dir, (n - 1) as u64) } else { Seq::<Seq<u8>>::empty() })
    }
}

/// one past the largest file number
pub open spec fn FILE_NUM_END() -> nat { 0x1_0000_0000_0000_0000 }

/// every block of every tracked file, in order: what a rolling reader can deliver
pub open spec fn all_blocks(dir: std::path::PathBuf, s: Set<u64>) -> Seq<Seq<u8>> { blocks_below(dir, s, FILE_NUM_END()) }

pub proof fn lemma_blocks_below_step(dir: std::path::PathBuf, s: Set<u64>, n: u64)
    ensures
        blocks_below(dir, s, (n + 1) as nat) == blocks_below(dir, s, n as nat)
            + (if s.contains(n) { dir_file_blocks(dir, n) } else { Seq::<Seq<u8>>::empty() }),
{
}

/// files in [a, b) that are not tracked, or hold no full block, contribute nothing
pub proof fn lemma_blocks_below_skip(dir: std::path::PathBuf, s: Set<u64>, a: nat, b: nat)
    requires
        a <= b <= FILE_NUM_END(),
        forall|k: u64| a <= k < b && s.contains(k) ==> dir_file_blocks(dir, k).len() == 0,
    ensures
        blocks_below(dir, s, b) == blocks_below(dir, s, a),
    decreases b - a,
{
    if a < b {
        lemma_blocks_below_skip(dir, s, a, (b - 1) as nat);
        let k = (b - 1) as u64;
        if s.contains(k) {
            assert(dir_file_blocks(dir, k) =~= Seq::<Seq<u8>>::empty());
        }
        assert(blocks_below(dir, s, (b - 1) as nat) + Seq::<Seq<u8>>::empty() =~= blocks_below(dir, s, (b - 1) as nat));
    }
}

/// blocks_below is a prefix of blocks_below at a larger bound
pub proof fn lemma_blocks_below_prefix(dir: std::path::PathBuf, s: Set<u64>, a: nat, b: nat)
    requires a <= b,
    ensures
        blocks_below(dir, s, a).len() <= blocks_below(dir, s, b).len(),
        blocks_below(dir, s, b).subrange(0, blocks_below(dir, s, a).len() as int) == blocks_below(dir, s, a),
    decreases b - a,
{
    if a < b {
        lemma_blocks_below_prefix(dir, s, a, (b - 1) as nat);
        let la = blocks_below(dir, s, a).len() as int;
        let prev = blocks_below(dir, s, (b - 1) as nat);
        assert(blocks_below(dir, s, b).subrange(0, la) =~= prev.subrange(0, la));
    } else {
        assert(blocks_below(dir, s, a).subrange(0, blocks_below(dir, s, a).len() as int) =~= blocks_below(dir, s, a));
    }
}

/// the i-th block of tracked file `c` sits at index blocks_below(c).len() + i of the whole sequence
pub proof fn lemma_block_at(dir: std::path::PathBuf, s: Set<u64>, c: u64, i: int)
    requires s.contains(c), 0 <= i < dir_file_blocks(dir, c).len(),
    ensures
        blocks_below(dir, s, c as nat).len() + i < all_blocks(dir, s).len(),
        all_blocks(dir, s)[blocks_below(dir, s, c as nat).len() + i] == dir_file_blocks(dir, c)[i],
{
    lemma_blocks_below_step(dir, s, c);
    lemma_blocks_below_prefix(dir, s, (c + 1) as nat, FILE_NUM_END());
    let upto = blocks_below(dir, s, (c + 1) as nat);
    let base = blocks_below(dir, s, c as nat).len() as int;
    assert(upto[base + i] == dir_file_blocks(dir, c)[i]);
    assert(all_blocks(dir, s).subrange(0, upto.len() as int)[base + i] == all_blocks(dir, s)[base + i]);
}

/// every block of the whole sequence is 32 KiB
pub proof fn lemma_all_blocks_ok(dir: std::path::PathBuf, s: Set<u64>, n: nat)
    ensures blocks_ok(blocks_below(dir, s, n)),
    decreases n,
{
    if n > 0 {
        lemma_blocks_below_step(dir, s, (n - 1) as u64);
        lemma_all_blocks_ok(dir, s, (n - 1) as nat);
        let prev = blocks_below(dir, s, (n - 1) as nat);
        let cur = blocks_below(dir, s, n);
        assert forall|i: int| 0 <= i < cur.len() implies (#[trigger] cur[i]).len() == 32768 by {
            if i < prev.len() {
                assert(cur[i] == prev[i]);
            } else {
                axiom_dir_file_blocks_len(dir, (n - 1) as u64, i - prev.len());
            }
        }
    }
}

} // verus!
