// Values of the shift expressions that define the file-size constants of rolling/mod.rs (`1 << 15`, `1 << 12`).
// Proved by bit_vector; broadcast (from a module of its own) so that the constants' own overflow check and
// every use of FILE_NUM_BYTES see the values.
use vstd::prelude::*;
verus! {

pub broadcast proof fn lemma_shl_consts(x: usize)
    requires x == 1,
    ensures #![trigger (x << 15)] #![trigger (x << 12)] (x << 15) == 32768 && (x << 12) == 4096,
{
    assert((1usize << 15) == 32768) by (bit_vector);
    assert((1usize << 12) == 4096) by (bit_vector);
}

} // verus!
