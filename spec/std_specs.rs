// Assumed contracts on std items that vstd does not specify (trusted base item 2).
// Every `assume_specification`, `external_type_specification` and axiom below is listed in
// contracts/trusted.json and in every evidence file.
use vstd::prelude::*;
#[allow(unused_imports)] use vstd::std_specs::iter::IteratorSpec;
use core::alloc::Allocator;
use std::collections::VecDeque;
use std::collections::HashMap;
use vstd::string::StringSliceAdditionalSpecFns;

verus! {

// ---------------------------------------------------------------- opaque std types
#[verifier::external_type_specification]
#[verifier::external_body]
pub struct ExIoError(std::io::Error);

// io::ErrorKind: an opaque enumeration; `Error::kind` is an uninterpreted function of the error; `==` on kinds is equality
#[verifier::external_type_specification]
pub struct ExIoErrorKind(std::io::ErrorKind);
pub uninterp spec fn io_error_kind(e: &std::io::Error) -> std::io::ErrorKind;
pub assume_specification[ std::io::Error::kind ](e: &std::io::Error) -> (k: std::io::ErrorKind)
    ensures k == io_error_kind(e);
pub assume_specification[ <std::io::ErrorKind as core::cmp::PartialEq>::eq ](a: &std::io::ErrorKind, b: &std::io::ErrorKind) -> (r: bool)
    ensures r == (*a == *b);

#[verifier::external_type_specification]
#[verifier::external_body]
pub struct ExPathBuf(std::path::PathBuf);

#[verifier::external_type_specification]
#[verifier::external_body]
pub struct ExPath(std::path::Path);

#[verifier::external_type_specification]
#[verifier::external_body]
pub struct ExFile(std::fs::File);

#[verifier::external_type_specification]
#[verifier::external_body]
pub struct ExInstant(std::time::Instant);

#[verifier::external_type_specification]
pub struct ExSeekFrom(std::io::SeekFrom);

#[verifier::external_type_specification]
#[verifier::external_body]
#[verifier::reject_recursive_types(T)]
pub struct ExOnce<T>(core::iter::Once<T>);

// ---------------------------------------------------------------- directory listing (Directory::open), over the ghost model of spec/vfs.rs
#[verifier::external_type_specification]
#[verifier::external_body]
pub struct ExDirEntry(std::fs::DirEntry);
#[verifier::external_type_specification]
#[verifier::external_body]
pub struct ExFileType(std::fs::FileType);
#[verifier::external_type_specification]
#[verifier::external_body]
pub struct ExOsString(std::ffi::OsString);
#[verifier::external_type_specification]
#[verifier::external_body]
pub struct ExOsStr(std::ffi::OsStr);

/// `DirEntry::file_type` does not follow symlinks: it says what the entry itself is
pub assume_specification[ std::fs::DirEntry::file_type ](e: &std::fs::DirEntry) -> (r: std::io::Result<std::fs::FileType>)
    ensures r matches Ok(t) ==> crate::vfs::ft_is_file(t) == crate::vfs::entry_is_regular(e);
pub assume_specification[ std::fs::FileType::is_file ](t: &std::fs::FileType) -> (r: bool)
    ensures r == crate::vfs::ft_is_file(*t);
pub assume_specification[ std::fs::DirEntry::file_name ](e: &std::fs::DirEntry) -> (r: std::ffi::OsString)
    ensures r == crate::vfs::entry_name(e);
pub assume_specification[ <std::ffi::OsString as std::ops::Deref>::deref ](s: &std::ffi::OsString) -> (r: &std::ffi::OsStr)
    ensures r == crate::vfs::os_ref(s);
pub assume_specification[ std::ffi::OsStr::to_str ](s: &std::ffi::OsStr) -> (r: Option<&str>)
    ensures match r { Some(t) => crate::vfs::os_utf8(s) == Some(t@), None => crate::vfs::os_utf8(s) is None };
/// `&PathBuf` used as `&Path` (Deref): the same path
pub assume_specification[ <std::path::PathBuf as std::ops::Deref>::deref ](pb: &std::path::PathBuf) -> (r: &std::path::Path)
    ensures crate::vfs::path_buf_of(r) == *pb;
pub assume_specification[ std::path::Path::to_path_buf ](p: &std::path::Path) -> (r: std::path::PathBuf)
    ensures r == crate::vfs::path_buf_of(p);

/// `<File as Seek>::seek` to an absolute offset: on success the cursor stands there (the only use: RollingReader::into_writer).
/// What remains to be READ from the handle (file_rest) is not specified after a seek.
pub assume_specification[ <std::fs::File as std::io::Seek>::seek ](f: &mut std::fs::File, pos: std::io::SeekFrom) -> (r: std::io::Result<u64>)
    ensures
        r is Ok ==> (match pos { std::io::SeekFrom::Start(n) => crate::vfs::file_pos(&*final(f)) == n, _ => true }),
;

/// `iter::once(v)`: a well-behaved finite iterator that yields exactly `v`
pub assume_specification<T>[ core::iter::once::<T> ](value: T) -> (r: core::iter::Once<T>)
    ensures
        r.obeys_prophetic_iter_laws(),
        r.decrease() is Some,
        r.remaining() == seq![value],
;

#[verifier::external_type_specification]
#[verifier::external_body]
pub struct ExUtf8Error(core::str::Utf8Error);

// ---------------------------------------------------------------- Result / convert
pub assume_specification<T, E, F: FnOnce(E) -> T>[ Result::<T, E>::unwrap_or_else ](r: Result<T, E>, op: F) -> (t: T)
    requires
        r is Err ==> op.requires((r->Err_0,)),
    ensures
        r is Ok ==> t == r->Ok_0,
        r is Err ==> op.ensures((r->Err_0,), t),
;

/// `Result::unwrap_or`: the value, or the default
pub assume_specification<T, E>[ Result::<T, E>::unwrap_or ](r: Result<T, E>, default: T) -> (t: T)
    ensures
        t == (match r { Ok(v) => v, Err(_) => default }),
;

pub assume_specification<T>[ core::convert::identity::<T> ](x: T) -> (r: T)
    ensures r == x,
;

// ---------------------------------------------------------------- Vec / VecDeque capacity
pub uninterp spec fn vec_capacity<T, A: Allocator>(v: &Vec<T, A>) -> usize;
pub uninterp spec fn vecdeque_capacity<T, A: Allocator>(v: &VecDeque<T, A>) -> usize;

pub axiom fn axiom_vec_capacity<T, A: Allocator>(v: &Vec<T, A>)
    ensures vec_capacity(v) >= v@.len();
pub axiom fn axiom_vecdeque_capacity<T, A: Allocator>(v: &VecDeque<T, A>)
    ensures vecdeque_capacity(v) >= v@.len();

pub assume_specification<T, A: Allocator>[ Vec::<T, A>::capacity ](v: &Vec<T, A>) -> (c: usize)
    ensures c >= v@.len(), c == vec_capacity(v),
;

pub assume_specification<T, A: Allocator>[ VecDeque::<T, A>::capacity ](v: &VecDeque<T, A>) -> (c: usize)
    ensures c >= v@.len(), c == vecdeque_capacity(v),
;

pub assume_specification<T, A: Allocator>[ VecDeque::<T, A>::shrink_to_fit ](v: &mut VecDeque<T, A>)
    ensures final(v)@ == old(v)@,
;

pub assume_specification<T, A: Allocator>[ VecDeque::<T, A>::shrink_to ](v: &mut VecDeque<T, A>, min_capacity: usize)
    ensures final(v)@ == old(v)@,
;

pub assume_specification<T, A: Allocator>[ VecDeque::<T, A>::as_slices ](v: &VecDeque<T, A>) -> (r: (&[T], &[T]))
    ensures r.0@ + r.1@ == v@,
;

/// A-mem-bound (assumed, physical): a byte ring buffer never holds more than 2^60 bytes -- an allocation above that cannot succeed.
/// (Rust itself guarantees 2^63 - 1; the tighter bound is what excludes overflow of `len * 9 / 8` in RollingBuffer::truncate_head.)
pub broadcast axiom fn axiom_mem_bound<A: Allocator>(v: &VecDeque<u8, A>)
    ensures (#[trigger] v@).len() <= 0x1000_0000_0000_0000;
/// Rust guarantees that a slice spans at most isize::MAX bytes
pub broadcast axiom fn axiom_slice_len_bound(s: &[u8])
    ensures (#[trigger] s@).len() <= 0x7fff_ffff_ffff_ffff;
pub broadcast group group_mem_bounds { axiom_mem_bound, axiom_slice_len_bound }

/// `VecDeque::as_mut_slices`: the two halves of the ring, in order; writing through them writes the deque
pub assume_specification<'a, T, A: Allocator>[ VecDeque::<T, A>::as_mut_slices ](v: &'a mut VecDeque<T, A>) -> (r: (&'a mut [T], &'a mut [T]))
    ensures
        r.0@ + r.1@ == old(v)@,
        final(v)@ == final(r.0)@ + final(r.1)@,
;

// ---------------------------------------------------------------- mem::take
pub assume_specification<T: Default>[ core::mem::take::<T> ](dest: &mut T) -> (r: T)
    ensures r == *old(dest),
;

// ---------------------------------------------------------------- time
pub assume_specification[ std::time::Instant::now ]() -> std::time::Instant;



// ---------------------------------------------------------------- str / utf8
pub assume_specification<'a>[ core::str::from_utf8 ](v: &'a [u8]) -> (r: Result<&'a str, core::str::Utf8Error>)
    ensures
        r is Ok ==> r->Ok_0.spec_bytes() == v@,
        r is Ok <==> vstd::utf8::valid_utf8(v@),
;

// ---------------------------------------------------------------- Extend
pub uninterp spec fn into_iter_seq<T, I>(i: I) -> Seq<T>;

pub assume_specification<'a, T: Copy + 'a, A: Allocator, I: IntoIterator<Item = &'a T>>[ <Vec<T, A> as Extend<&'a T>>::extend::<I> ](v: &mut Vec<T, A>, iter: I)
    ensures final(v)@ == old(v)@ + into_iter_seq::<T, I>(iter),
;

pub broadcast axiom fn axiom_into_iter_seq_slice<'a, T>(s: &'a [T])
    ensures #[trigger] into_iter_seq::<T, &'a [T]>(s) == s@,
;

// ---------------------------------------------------------------- HashMap<String, V> looked up by &str
use vstd::std_specs::hash::{obeys_key_model, contains_borrowed_key, maps_borrowed_key_to_value, borrowed_key_removed};

/// String hashes/compares by content (std): it obeys vstd's hash-key model
pub broadcast axiom fn axiom_string_obeys_key_model()
    ensures #[trigger] obeys_key_model::<String>();

/// String's `Ord` is a total order consistent with `==` (std): it obeys vstd's ordered-key model (BTreeMap<String, _> in QueuesSummary)
pub broadcast axiom fn axiom_string_obeys_cmp()
    ensures #[trigger] vstd::laws_cmp::obeys_cmp::<String>();

/// Strings are equal iff their characters are
pub broadcast axiom fn axiom_string_view_injective(a: String, b: String)
    ensures (#[trigger] a@) == (#[trigger] b@) ==> a == b;

/// `Borrow<str> for String` borrows the same characters: looking a `&str` up finds the key with these characters
pub broadcast axiom fn axiom_contains_borrowed_str<V>(m: Map<String, V>, k: &str)
    ensures #[trigger] contains_borrowed_key::<String, V, str>(m, k) <==> exists|s: String| s@ == k@ && m.contains_key(s);

pub broadcast axiom fn axiom_maps_borrowed_str<V>(m: Map<String, V>, k: &str, v: V)
    ensures #[trigger] maps_borrowed_key_to_value::<String, V, str>(m, k, v) <==> exists|s: String| s@ == k@ && m.contains_key(s) && m[s] == v;

pub broadcast axiom fn axiom_borrowed_removed_str<V>(old: Map<String, V>, new: Map<String, V>, k: &str)
    ensures #[trigger] borrowed_key_removed::<String, V, str>(old, new, k) <==>
        forall|s: String| s@ == k@ ==> new == old.remove(s);

/// ghost: `key.borrow() == k` for a map key and a borrowed lookup key
pub uninterp spec fn borrowed_matches<K, Q: ?Sized>(key: K, k: &Q) -> bool;

pub broadcast axiom fn axiom_borrowed_matches_str(key: String, k: &str)
    ensures #[trigger] borrowed_matches::<String, str>(key, k) <==> key@ == k@;

/// `HashMap::get_mut` (no vstd contract): a mutable borrow of the value stored under the matching key
pub assume_specification<'a, K: core::borrow::Borrow<Q> + core::hash::Hash + Eq, V, S: core::hash::BuildHasher, A: Allocator, Q: core::hash::Hash + Eq + ?Sized>
    [ HashMap::<K, V, S, A>::get_mut::<Q> ](m: &'a mut HashMap<K, V, S, A>, k: &Q) -> (r: Option<&'a mut V>)
    ensures
        match r {
            Some(v) => exists|key: K| #[trigger] borrowed_matches::<K, Q>(key, k) && old(m)@.contains_key(key) && *v == old(m)@[key]
                && final(m)@ == old(m)@.insert(key, *final(v)),
            None => (forall|key: K| #[trigger] borrowed_matches::<K, Q>(key, k) ==> !old(m)@.contains_key(key)) && final(m)@ == old(m)@,
        },
;

pub broadcast group group_string_map {
    axiom_borrowed_matches_str,
    axiom_string_obeys_key_model, axiom_string_obeys_cmp, axiom_string_view_injective, axiom_contains_borrowed_str, axiom_maps_borrowed_str,
    axiom_borrowed_removed_str,
}

// ---------------------------------------------------------------- BTreeSet::{first, pop_first} (no vstd contract)
use std::collections::BTreeSet;

/// ghost: the total order `Ord` gives to keys of type T
pub uninterp spec fn ord_le<T>(a: T, b: T) -> bool;

/// m is the least element of s
pub open spec fn is_min<T>(m: T, s: Set<T>) -> bool {
    s.contains(m) && forall|x: T| s.contains(x) ==> ord_le(m, x)
}

pub assume_specification<T: Ord, A: Allocator + Clone>[ BTreeSet::<T, A>::first ](s: &BTreeSet<T, A>) -> (r: Option<&T>)
    ensures
        r is None <==> s@.len() == 0,
        r matches Some(m) ==> is_min(*m, s@),
;

pub assume_specification<T: Ord, A: Allocator + Clone>[ BTreeSet::<T, A>::pop_first ](s: &mut BTreeSet<T, A>) -> (r: Option<T>)
    ensures
        r is None <==> old(s)@.len() == 0,
        r is None ==> final(s)@ == old(s)@,
        r matches Some(m) ==> is_min(m, old(s)@) && final(s)@ == old(s)@.remove(m),
;

/// `Ord` on u64 is the usual order
pub broadcast axiom fn axiom_u64_ord(a: u64, b: u64)
    ensures #[trigger] ord_le::<u64>(a, b) <==> a <= b;

/// `<[T]>::binary_search_by_key` (std contract): on a slice sorted by the key, Ok(i) names an element whose key equals `b`,
/// Err(i) the insertion point (keys before it are smaller, keys from it on are larger).  The key function is any closure;
/// its results are named through its own `ensures`.
pub assume_specification<'a, T, B: Ord, F: FnMut(&'a T) -> B>[ <[T]>::binary_search_by_key ](s: &'a [T], b: &B, f: F) -> (r: Result<usize, usize>)
    requires
        forall|i: int| 0 <= i < s@.len() ==> call_requires(f, (&#[trigger] s@[i],)),
        forall|i: int, j: int, ki: B, kj: B| 0 <= i <= j < s@.len() && #[trigger] call_ensures(f, (&s@[i],), ki) && #[trigger] call_ensures(f, (&s@[j],), kj) ==> ord_le(ki, kj),
    ensures
        match r {
            Ok(i) => i < s@.len() && exists|k: B| #[trigger] call_ensures(f, (&s@[i as int],), k) && ord_le(k, *b) && ord_le(*b, k),
            // (the key function is taken to be defined on every element: it satisfies its `requires` there)
            Err(i) => i <= s@.len()
                && (forall|j: int| #![trigger s@[j]] 0 <= j < i ==> exists|k: B| #[trigger] call_ensures(f, (&s@[j],), k) && ord_le(k, *b) && !ord_le(*b, k))
                && (forall|j: int| #![trigger s@[j]] i <= j < s@.len() ==> exists|k: B| #[trigger] call_ensures(f, (&s@[j],), k) && ord_le(*b, k) && !ord_le(k, *b)),
        },
;

pub assume_specification<P: AsRef<std::path::Path>>[ std::fs::remove_file::<P> ](p: P) -> (r: std::io::Result<()>);

} // verus!
