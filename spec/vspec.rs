use vstd::prelude::*;
verus! {
pub uninterp spec fn crc32_spec(data: Seq<u8>, frame_type: u8) -> u32;
} // verus!
