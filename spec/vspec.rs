// Ghost specification shared by all units (DESIGN.md 3).  No repo code here.
use vstd::prelude::*;
#[allow(unused_imports)] use vstd::std_specs::iter::IteratorSpec;
use vstd::bytes::*;
verus! {

global size_of usize == 8;

// ------------------------------------------------------------------------------------ frames
/// checksum of a frame: the CRC of the type byte followed by the payload (the CRC function itself is uninterpreted)
pub open spec fn crc32_spec(data: Seq<u8>, frame_type: u8) -> u32 { crate::vshim::crc32fast::crc_of(seq![frame_type] + data) }

pub open spec fn BLOCK() -> int { 32768 }
pub open spec fn HDR() -> int { 7 }

pub open spec fn zeros(n: int) -> Seq<u8> { Seq::new(n as nat, |i: int| 0u8) }

/// serialized frame header: crc32 (le) | len (le) | type
pub open spec fn hdr_bytes(crc: u32, len: u16, ty: u8) -> Seq<u8> {
    spec_u32_to_le_bytes(crc) + spec_u16_to_le_bytes(len) + seq![ty]
}

pub open spec fn valid_type(b: u8) -> bool { 1 <= b <= 4 }
pub open spec fn type_is_first(b: u8) -> bool { b == 1 || b == 2 }
pub open spec fn type_is_last(b: u8) -> bool { b == 1 || b == 4 }

/// bytes remaining in the block when the stream position is `pos`
pub open spec fn rem_in_block(pos: int) -> int { BLOCK() - pos % BLOCK() }

/// zero padding written before a frame when fewer than a header remain in the block
pub open spec fn pad_len(pos: int) -> int { if rem_in_block(pos) < HDR() { rem_in_block(pos) } else { 0 } }

/// largest payload of a frame written at stream position `pos`
pub open spec fn max_frame_payload(pos: int) -> int {
    if rem_in_block(pos) >= HDR() { rem_in_block(pos) - HDR() } else { BLOCK() - HDR() }
}

/// bytes pushed to the block writer by one write_frame at stream position `pos`
pub open spec fn frame_enc(pos: int, ty: u8, payload: Seq<u8>) -> Seq<u8> {
    zeros(pad_len(pos)) + hdr_bytes(crc32_spec(payload, ty), payload.len() as u16, ty) + payload
}

pub open spec fn frame_type_code(first: bool, last: bool) -> u8 {
    if first && last { 1 } else if first { 2 } else if last { 4 } else { 3 }
}

/// length of one encoded frame
pub proof fn lemma_frame_enc_len(pos: int, ty: u8, payload: Seq<u8>)
    ensures frame_enc(pos, ty, payload).len() == pad_len(pos) + 7 + payload.len(),
{
    vstd::bytes::lemma_auto_spec_u32_to_from_le_bytes();
    vstd::bytes::lemma_auto_spec_u16_to_from_le_bytes();
}

/// after a frame that used all the room of its block (or found room for a bare header only), the
/// next frame starts a fresh block
pub proof fn lemma_full_frame_ends_block(pos: int)
    requires pos >= 0,
    ensures
        (pos + pad_len(pos) + 7 + max_frame_payload(pos)) % BLOCK() == 0,
        max_frame_payload(pos + pad_len(pos) + 7 + max_frame_payload(pos)) == BLOCK() - 7,
        0 <= pos % BLOCK() < BLOCK(),
{
    let m = pos % 32768;
    let q = pos / 32768;
    assert(pos == 32768 * q + m && 0 <= m < 32768) by (nonlinear_arith) requires m == pos % 32768, q == pos / 32768, pos >= 0;
    let pos2 = pos + pad_len(pos) + 7 + max_frame_payload(pos);
    if 32768 - m < 7 {
        assert(pos2 == 32768 * (q + 2)) by (nonlinear_arith)
            requires pos == 32768 * q + m, pos2 == pos + (32768 - m) + 7 + (32768 - 7);
        assert(pos2 % 32768 == 0) by (nonlinear_arith) requires pos2 == 32768 * (q + 2);
    } else {
        assert(pos2 == 32768 * (q + 1)) by (nonlinear_arith)
            requires pos == 32768 * q + m, pos2 == pos + 0 + 7 + (32768 - m - 7);
        assert(pos2 % 32768 == 0) by (nonlinear_arith) requires pos2 == 32768 * (q + 1);
    }
}

/// bytes pushed by write_record for a serialized entry `payload` starting at stream position `pos`
pub open spec fn enc(pos: int, payload: Seq<u8>, first: bool) -> Seq<u8>
    decreases payload.len(), (if max_frame_payload(pos) == 0 { 1int } else { 0int }),
    when pos >= 0
    via enc_decreases
{
    let avail = max_frame_payload(pos);
    let n = if avail < payload.len() { avail } else { payload.len() as int };
    let last = n == payload.len();
    let f = frame_enc(pos, frame_type_code(first, last), payload.take(n));
    if last { f } else { f + enc(pos + f.len(), payload.skip(n), false) }
}

#[via_fn]
proof fn enc_decreases(pos: int, payload: Seq<u8>, first: bool) {
    let avail = max_frame_payload(pos);
    let n = if avail < payload.len() { avail } else { payload.len() as int };
    let last = n == payload.len();
    let f = frame_enc(pos, frame_type_code(first, last), payload.take(n));
    lemma_frame_enc_len(pos, frame_type_code(first, last), payload.take(n));
    lemma_full_frame_ends_block(pos);
    if !last {
        assert(n == avail);
        assert(payload.skip(n).len() == payload.len() - n);
    }
}

/// L-enc-len: an entry of n bytes costs at most 14 n + 21 bytes of WAL (used to exclude u64 overflow)
pub proof fn lemma_enc_len_bound(pos: int, payload: Seq<u8>, first: bool)
    requires pos >= 0,
    ensures enc(pos, payload, first).len() <= 14 * payload.len() + 14 + (if max_frame_payload(pos) == 0 { 7int } else { 0int }),
    decreases payload.len(), (if max_frame_payload(pos) == 0 { 1int } else { 0int }),
{
    let avail = max_frame_payload(pos);
    let n = if avail < payload.len() { avail } else { payload.len() as int };
    let last = n == payload.len();
    let f = frame_enc(pos, frame_type_code(first, last), payload.take(n));
    lemma_frame_enc_len(pos, frame_type_code(first, last), payload.take(n));
    lemma_full_frame_ends_block(pos);
    if !last {
        assert(payload.skip(n).len() == payload.len() - n);
        lemma_enc_len_bound(pos + f.len(), payload.skip(n), false);
    }
}

// ------------------------------------------------------------------------------------ frame reader
/// position of a frame reader inside the sequence of blocks
pub struct RdPos { pub idx: int, pub cursor: int, pub corrupted: bool }

pub enum FStep {
    /// a CRC-valid frame was delivered
    Frame { ty: u8, payload: Seq<u8>, next: RdPos },
    /// damaged frame: reported as Corruption
    Corrupt { next: RdPos },
    /// no (more) frame available: reported as NotAvailable
    End { next: RdPos },
}

impl FStep {
    pub open spec fn next(self) -> RdPos {
        match self { FStep::Frame { next, .. } => next, FStep::Corrupt { next } => next, FStep::End { next } => next }
    }
}

/// leave the current block if it is quarantined or has no room for a header; None: no next block
pub open spec fn skip_step(blocks: Seq<Seq<u8>>, p: RdPos) -> Option<RdPos> {
    if p.corrupted || BLOCK() - p.cursor < HDR() {
        if p.idx + 1 < blocks.len() { Some(RdPos { idx: p.idx + 1, cursor: 0, corrupted: false }) } else { None }
    } else { Some(p) }
}

/// The frame-level reading rule (C08/C09): what one read of a frame does at position `p`.
pub open spec fn frame_step(blocks: Seq<Seq<u8>>, p: RdPos) -> FStep {
    match skip_step(blocks, p) {
        None => FStep::End { next: p },
        Some(q) => {
            let blk = blocks[q.idx];
            let hb = blk.subrange(q.cursor, q.cursor + HDR());
            if hb == zeros(HDR()) {
                FStep::End { next: q }
            } else if !valid_type(hb[6]) {
                // undecodable header: quarantine the rest of the block
                FStep::Corrupt { next: RdPos { corrupted: true, ..q } }
            } else {
                let len = spec_u16_from_le_bytes(hb.subrange(4, 6)) as int;
                let c = q.cursor + HDR();
                if c + len > BLOCK() {
                    // frame would cross the block end: quarantine the rest of the block
                    FStep::Corrupt { next: RdPos { idx: q.idx, cursor: c, corrupted: true } }
                } else {
                    let payload = blk.subrange(c, c + len);
                    let next = RdPos { idx: q.idx, cursor: c + len, corrupted: false };
                    if crc32_spec(payload, hb[6]) != spec_u32_from_le_bytes(hb.subrange(0, 4)) {
                        // CRC mismatch: skip exactly this frame, keep the block
                        FStep::Corrupt { next }
                    } else {
                        FStep::Frame { ty: hb[6], payload, next }
                    }
                }
            }
        }
    }
}

/// strict progress of a reader position (lexicographic: block, quarantine flag, cursor)
pub open spec fn rd_progress(a: RdPos, b: RdPos) -> bool {
    b.idx > a.idx || (b.idx == a.idx && !a.corrupted && b.corrupted)
        || (b.idx == a.idx && a.corrupted == b.corrupted && b.cursor > a.cursor)
}

// ------------------------------------------------------------------------------------ record reader
/// a reader position that can still make progress is inside the blocks
pub open spec fn pos_ok(blocks: Seq<Seq<u8>>, p: RdPos) -> bool {
    0 <= p.idx < blocks.len() && 0 <= p.cursor <= BLOCK()
}

pub open spec fn blocks_ok(blocks: Seq<Seq<u8>>) -> bool {
    forall|i: int| 0 <= i < blocks.len() ==> (#[trigger] blocks[i]).len() == BLOCK()
}

/// frame_step keeps positions inside the blocks and makes strict progress unless it reports End
pub proof fn lemma_frame_step_progress(blocks: Seq<Seq<u8>>, p: RdPos)
    requires pos_ok(blocks, p), blocks_ok(blocks),
    ensures
        pos_ok(blocks, frame_step(blocks, p).next()),
        !(frame_step(blocks, p) is End) ==> rd_progress(p, frame_step(blocks, p).next()),
        frame_step(blocks, p) is End ==> frame_step(blocks, p).next() == p || rd_progress(p, frame_step(blocks, p).next()),
{
}

pub enum RStep {
    /// a complete entry (all frames First..Last intact and consecutive) was assembled
    Record { bytes: Seq<u8>, next: RdPos },
    /// a damaged frame was met: the entry being assembled is abandoned
    Corrupt { next: RdPos },
    /// no more frame: a partly assembled entry stays pending
    End { next: RdPos, within: bool, buf: Seq<u8> },
}

impl RStep {
    pub open spec fn next(self) -> RdPos {
        match self { RStep::Record { next, .. } => next, RStep::Corrupt { next } => next, RStep::End { next, .. } => next }
    }
}

pub open spec fn rd_measure(blocks: Seq<Seq<u8>>, p: RdPos) -> (int, int, int) {
    (blocks.len() - p.idx, if p.corrupted { 0int } else { 1int }, BLOCK() - p.cursor)
}

/// The entry-level reading rule (C12): assemble frames into one entry.
/// `within`/`buf`: an entry is being assembled and these are its bytes so far.
pub open spec fn rec_step(blocks: Seq<Seq<u8>>, p: RdPos, within: bool, buf: Seq<u8>) -> RStep
    decreases blocks.len() - p.idx, (if p.corrupted { 0int } else { 1int }), BLOCK() - p.cursor,
    when pos_ok(blocks, p) && blocks_ok(blocks)
    via rec_step_decreases
{
    match frame_step(blocks, p) {
        FStep::End { next } => RStep::End { next, within, buf },
        FStep::Corrupt { next } => RStep::Corrupt { next },
        FStep::Frame { ty, payload, next } => {
            // a first frame (re)starts an entry, dropping whatever was pending
            let w1 = if type_is_first(ty) { true } else { within };
            let b1 = if type_is_first(ty) { Seq::<u8>::empty() } else { buf };
            if w1 {
                if type_is_last(ty) { RStep::Record { bytes: b1 + payload, next } }
                else { rec_step(blocks, next, true, b1 + payload) }
            } else {
                // continuation frame of an entry whose start was lost: contributes nothing
                rec_step(blocks, next, false, b1)
            }
        }
    }
}

#[via_fn]
proof fn rec_step_decreases(blocks: Seq<Seq<u8>>, p: RdPos, within: bool, buf: Seq<u8>) {
    lemma_frame_step_progress(blocks, p);
}

/// rec_step keeps positions inside the blocks; Record/Corrupt make strict progress
pub proof fn lemma_rec_step_progress(blocks: Seq<Seq<u8>>, p: RdPos, within: bool, buf: Seq<u8>)
    requires pos_ok(blocks, p), blocks_ok(blocks),
    ensures
        pos_ok(blocks, rec_step(blocks, p, within, buf).next()),
        !(rec_step(blocks, p, within, buf) is End) ==> rd_progress(p, rec_step(blocks, p, within, buf).next()),
        rec_step(blocks, p, within, buf) is End ==> rec_step(blocks, p, within, buf).next() == p || rd_progress(p, rec_step(blocks, p, within, buf).next()),
    decreases blocks.len() - p.idx, (if p.corrupted { 0int } else { 1int }), BLOCK() - p.cursor,
{
    lemma_frame_step_progress(blocks, p);
    match frame_step(blocks, p) {
        FStep::Frame { ty, payload, next } => {
            let w1 = if type_is_first(ty) { true } else { within };
            let b1 = if type_is_first(ty) { Seq::<u8>::empty() } else { buf };
            if w1 {
                if !type_is_last(ty) { lemma_rec_step_progress(blocks, next, true, b1 + payload); }
            } else {
                lemma_rec_step_progress(blocks, next, false, b1);
            }
        }
        _ => {}
    }
}

// ------------------------------------------------------------------------------------ queues (C05)
pub open spec fn pred_le(p: u64) -> spec_fn((u64, Seq<u8>)) -> bool { |r: (u64, Seq<u8>)| r.0 <= p }
pub open spec fn pred_gt(p: u64) -> spec_fn((u64, Seq<u8>)) -> bool { |r: (u64, Seq<u8>)| r.0 > p }

/// in a sequence whose first k records are <= p and the others > p, filtering is taking / skipping k
pub proof fn lemma_split_filter(recs: Seq<(u64, Seq<u8>)>, p: u64, k: int)
    requires
        0 <= k <= recs.len(),
        forall|j: int| 0 <= j < k ==> (#[trigger] recs[j]).0 <= p,
        forall|j: int| k <= j < recs.len() ==> (#[trigger] recs[j]).0 > p,
    ensures
        recs.filter(pred_le(p)) =~= recs.take(k),
        recs.filter(pred_gt(p)) =~= recs.skip(k),
    decreases recs.len(),
{
    reveal(Seq::filter);
    if recs.len() > 0 {
        let r2 = recs.drop_last();
        if k == recs.len() {
            lemma_split_filter(r2, p, k - 1);
            assert(r2.take(k - 1) =~= r2);
            assert(r2.push(recs.last()) =~= recs);
            assert(recs.take(k) =~= recs);
        } else {
            lemma_split_filter(r2, p, k);
            assert(r2.take(k) =~= recs.take(k));
            assert(r2.skip(k).push(recs.last()) =~= recs.skip(k));
        }
    }
}

/// One queue: where it starts and its retained records (position, payload) in order.
pub struct QView { pub start: u64, pub recs: Seq<(u64, Seq<u8>)> }

impl QView {
    pub open spec fn empty_at(p: u64) -> QView { QView { start: p, recs: Seq::empty() } }
    /// next position: one past the last record, or `start` for an empty queue
    pub open spec fn next(self) -> int {
        if self.recs.len() == 0 { self.start as int } else { self.recs.last().0 + 1 }
    }
    pub open spec fn last_position(self) -> Option<u64> {
        if self.next() >= 1 { Some((self.next() - 1) as u64) } else { None }
    }
    /// positions strictly increasing, not before `start`, and `next` representable
    pub open spec fn wf(self) -> bool {
        &&& forall|i: int, j: int| 0 <= i < j < self.recs.len() ==> self.recs[i].0 < self.recs[j].0
        &&& forall|i: int| 0 <= i < self.recs.len() ==> self.start <= (#[trigger] self.recs[i]).0 < u64::MAX
        &&& self.next() <= u64::MAX
    }
    pub open spec fn payload_bytes(self) -> int
        decreases self.recs.len(),
    {
        if self.recs.len() == 0 { 0 } else {
            QView { start: self.start, recs: self.recs.drop_last() }.payload_bytes() + self.recs.last().1.len()
        }
    }
    /// sequential spec of an append at an explicit position `pos >= next` (C05: positions may jump
    /// forward; a never-used queue at 0 starts at the first appended position)
    pub open spec fn append(self, pos: u64, payload: Seq<u8>) -> QView {
        QView {
            start: if self.start == 0 && self.recs.len() == 0 { pos } else { self.start },
            recs: self.recs.push((pos, payload)),
        }
    }
    /// number of records at or below p
    pub open spec fn count_upto(self, p: u64) -> int {
        self.recs.filter(pred_le(p)).len() as int
    }
    /// sequential spec of truncate(..=p): removes exactly the records <= p; an emptied queue moves to p+1;
    /// a position below `start` changes nothing
    pub open spec fn truncate(self, p: u64) -> QView {
        if p < self.start { self }
        else if p + 1 >= self.next() { QView { start: (p + 1) as u64, recs: Seq::empty() } }
        else { QView { start: (p + 1) as u64, recs: self.recs.filter(pred_gt(p)) } }
    }
    pub open spec fn truncate_count(self, p: u64) -> int {
        if p < self.start { 0 } else { self.count_upto(p) }
    }
}

/// the whole log: queue name -> queue.  Keys are Strings; `skey` names the String with given characters.
pub type LogView = Map<String, QView>;

/// append a batch, in order
pub open spec fn append_all(q: QView, items: Seq<(u64, Seq<u8>)>) -> QView
    decreases items.len(),
{
    if items.len() == 0 { q } else { append_all(q.append(items[0].0, items[0].1), items.skip(1)) }
}

/// ghost: the byte strings a payload iterator yields (each `impl Buf` read to its end)
#[verifier::opaque]
#[verifier::prophetic]
pub open spec fn iter_payloads<B: crate::vshim::Buf, T: Iterator<Item = B>>(it: T) -> Seq<Seq<u8>> {
    it.remaining().map_values(|b: B| b.rem())
}

/// a one-element iterator carries a one-element batch (used for the wrapper `append_record` = `append_records(once(payload))`)
pub broadcast proof fn lemma_iter_payloads_single<B: crate::vshim::Buf, T: Iterator<Item = B>>(it: T)
    requires it.remaining().len() == 1,
    ensures #[trigger] iter_payloads(it) == seq![it.remaining()[0].rem()],
{
    reveal(iter_payloads);
    assert(iter_payloads(it) =~= seq![it.remaining()[0].rem()]);
}

/// the payload iterator behaves like a finite sequence (vstd's iterator laws)
pub open spec fn iter_ok<T: Iterator>(it: T) -> bool {
    it.obeys_prophetic_iter_laws() && it.decrease() is Some
}

/// the batch an append of payloads `ps` at first position `pos` stores: consecutive positions
pub open spec fn items_of(pos: u64, ps: Seq<Seq<u8>>) -> Seq<(u64, Seq<u8>)> {
    Seq::new(ps.len(), |i: int| ((pos + i) as u64, ps[i]))
}


pub open spec fn skey(k: Seq<char>) -> String { choose|s: String| s@ == k }

/// every character sequence is the content of some String (assumed; trusted base)
pub broadcast axiom fn axiom_skey_view(k: Seq<char>)
    ensures (#[trigger] skey(k))@ == k;

/// skey(s@) == s (Strings are determined by their characters)
pub proof fn lemma_skey(s: String)
    ensures skey(s@) == s,
{
    crate::std_specs::axiom_string_view_injective(skey(s@), s);
}


// ------------------------------------------------------------------------------------ WAL entries
/// abstract WAL entry: kind code (on-disk type byte), queue name, position field, body
/// kinds: 1 = Truncate(..=position), 2 = RecordPosition(next = position), 3 = DeleteQueue, 4 = AppendRecords
pub struct EntryView { pub kind: u8, pub queue: Seq<char>, pub position: u64, pub body: Seq<u8> }

pub open spec fn name_bytes(q: Seq<char>) -> Seq<u8> { vstd::utf8::encode_utf8(q) }

/// on-disk layout of an entry: type(1) | position(8, le) | queue_len(2, le) | queue bytes | body
pub open spec fn ser_entry(e: EntryView) -> Seq<u8> {
    seq![e.kind] + spec_u64_to_le_bytes(e.position) + spec_u16_to_le_bytes(name_bytes(e.queue).len() as u16)
        + name_bytes(e.queue) + e.body
}

pub proof fn lemma_ser_entry_len(e: EntryView)
    ensures ser_entry(e).len() == 11 + name_bytes(e.queue).len() + e.body.len(),
{
    lemma_auto_spec_u64_to_from_le_bytes();
    lemma_auto_spec_u16_to_from_le_bytes();
}

/// items of an AppendRecords body: (position(8, le) | len(4, le) | payload)*
pub open spec fn ser_item(pos: u64, payload: Seq<u8>) -> Seq<u8> {
    spec_u64_to_le_bytes(pos) + spec_u32_to_le_bytes(payload.len() as u32) + payload
}

pub open spec fn ser_items(items: Seq<(u64, Seq<u8>)>) -> Seq<u8>
    decreases items.len(),
{
    if items.len() == 0 { Seq::<u8>::empty() } else { ser_item(items[0].0, items[0].1) + ser_items(items.skip(1)) }
}

/// parse the first item of a body: None = corrupted (too short)
pub open spec fn parse_item(b: Seq<u8>) -> Option<(u64, Seq<u8>, int)> {
    if b.len() < 12 { None } else {
        let pos = spec_u64_from_le_bytes(b.subrange(0, 8));
        let len = spec_u32_from_le_bytes(b.subrange(8, 12)) as int;
        // the position after a record must be representable
        if pos == u64::MAX || b.len() - 12 < len { None } else { Some((pos, b.subrange(12, 12 + len), 12 + len)) }
    }
}

/// parse a whole body: Some(items) iff every item is complete (what MultiRecord::new validates)
pub open spec fn parse_items(b: Seq<u8>) -> Option<Seq<(u64, Seq<u8>)>>
    decreases b.len(),
{
    if b.len() == 0 { Some(Seq::empty()) } else {
        match parse_item(b) {
            None => None,
            Some((pos, payload, used)) => match parse_items(b.skip(used)) {
                None => None,
                Some(rest) => Some(seq![(pos, payload)] + rest),
            },
        }
    }
}

/// parse an entry: None = rejected as corrupted
pub open spec fn parse_entry(b: Seq<u8>) -> Option<EntryView> {
    if b.len() < 11 { None } else if !(1 <= b[0] <= 4) { None } else {
        let position = spec_u64_from_le_bytes(b.subrange(1, 9));
        let qlen = spec_u16_from_le_bytes(b.subrange(9, 11)) as int;
        let rest = b.skip(11);
        if rest.len() < qlen { None } else {
            let qbytes = rest.take(qlen);
            let body = rest.skip(qlen);
            if !vstd::utf8::valid_utf8(qbytes) { None }
            else if b[0] == 4 && parse_items(body) is None { None }
            // a queue cannot be truncated past the last representable position
            else if b[0] == 1 && position == u64::MAX { None }
            else { Some(EntryView { kind: b[0], queue: vstd::utf8::decode_utf8(qbytes), position, body: if b[0] == 4 { body } else { Seq::empty() } }) }
        }
    }
}

/// replay rule of a RecordPosition entry / of the first AppendRecords seen for an unknown queue (C09):
/// an empty queue already at `p` is left alone; anything else is replaced by an empty queue at `p`
pub open spec fn log_ack(v: LogView, k: String, p: u64) -> LogView {
    if v.contains_key(k) && v[k].recs.len() == 0 && v[k].next() == p { v } else { v.insert(k, QView::empty_at(p)) }
}


// ------------------------------------------------------------------------------------ codec round trip (O-C01-codec)
/// L-codec-item: one serialized item parses back, consuming exactly its bytes
pub proof fn lemma_parse_ser_item(pos: u64, payload: Seq<u8>, rest: Seq<u8>)
    requires payload.len() <= u32::MAX, pos < u64::MAX,
    ensures parse_item(ser_item(pos, payload) + rest) == Some((pos, payload, 12 + payload.len() as int)),
{
    lemma_auto_spec_u64_to_from_le_bytes();
    lemma_auto_spec_u32_to_from_le_bytes();
    let b = ser_item(pos, payload) + rest;
    assert(b.subrange(0, 8) =~= spec_u64_to_le_bytes(pos));
    assert(b.subrange(8, 12) =~= spec_u32_to_le_bytes(payload.len() as u32));
    assert(b.subrange(12, 12 + payload.len() as int) =~= payload);
}

pub open spec fn items_ok(items: Seq<(u64, Seq<u8>)>) -> bool {
    forall|i: int| 0 <= i < items.len() ==> (#[trigger] items[i]).1.len() <= u32::MAX && items[i].0 < u64::MAX
}

/// L-codec-items: a serialized batch parses back to exactly the batch (any number of records, any payloads)
pub proof fn lemma_parse_ser_items(items: Seq<(u64, Seq<u8>)>)
    requires items_ok(items),
    ensures parse_items(ser_items(items)) == Some(items),
    decreases items.len(),
{
    lemma_auto_spec_u64_to_from_le_bytes();
    lemma_auto_spec_u32_to_from_le_bytes();
    if items.len() > 0 {
        let rest = ser_items(items.skip(1));
        lemma_parse_ser_item(items[0].0, items[0].1, rest);
        let b = ser_items(items);
        let used = 12 + items[0].1.len() as int;
        assert(b.skip(used) =~= rest);
        assert(items_ok(items.skip(1))) by {
            assert forall|i: int| 0 <= i < items.skip(1).len() implies (#[trigger] items.skip(1)[i]).1.len() <= u32::MAX && items.skip(1)[i].0 < u64::MAX by {
                assert(items.skip(1)[i] == items[i + 1]);
            }
        }
        lemma_parse_ser_items(items.skip(1));
        assert(seq![(items[0].0, items[0].1)] + items.skip(1) =~= items);
        assert(b.len() > 0);
    }
}

pub open spec fn entry_ok(e: EntryView) -> bool {
    &&& 1 <= e.kind <= 4
    &&& name_bytes(e.queue).len() <= 65535
    &&& (e.kind == 4 ==> parse_items(e.body) is Some)
    &&& (e.kind != 4 ==> e.body.len() == 0)
    &&& (e.kind == 1 ==> e.position < u64::MAX)
}

/// L-codec-entry: every well-formed entry (all four kinds, any name up to 65535 bytes, any position,
/// any batch) parses back to itself
pub proof fn lemma_parse_ser_entry(e: EntryView)
    requires entry_ok(e),
    ensures parse_entry(ser_entry(e)) == Some(e),
{
    lemma_auto_spec_u64_to_from_le_bytes();
    lemma_auto_spec_u16_to_from_le_bytes();
    vstd::utf8::encode_utf8_valid_utf8(e.queue);
    vstd::utf8::encode_utf8_decode_utf8(e.queue);
    let b = ser_entry(e);
    let nb = name_bytes(e.queue);
    assert(b.subrange(1, 9) =~= spec_u64_to_le_bytes(e.position));
    assert(b.subrange(9, 11) =~= spec_u16_to_le_bytes(nb.len() as u16));
    assert(b.skip(11) =~= nb + e.body);
    assert(b.skip(11).take(nb.len() as int) =~= nb);
    assert(b.skip(11).skip(nb.len() as int) =~= e.body);
    if e.kind != 4 {
        assert(e.body =~= Seq::<u8>::empty());
    }
}

/// an empty batch serializes to nothing, a non-empty one to something
pub proof fn lemma_ser_items_push(items: Seq<(u64, Seq<u8>)>, x: (u64, Seq<u8>))
    ensures ser_items(items.push(x)) == ser_items(items) + ser_item(x.0, x.1),
    decreases items.len(),
{
    if items.len() == 0 {
        let s = items.push(x);
        assert(s[0] == x);
        assert(s.skip(1).len() == 0);
        assert(ser_items(s.skip(1)) =~= Seq::<u8>::empty());
        assert(ser_items(s) =~= ser_item(x.0, x.1) + ser_items(s.skip(1)));
        assert(ser_items(items) =~= Seq::<u8>::empty());
        assert(ser_items(s) =~= ser_items(items) + ser_item(x.0, x.1));
    } else {
        lemma_ser_items_push(items.skip(1), x);
        assert(items.push(x).skip(1) =~= items.skip(1).push(x));
        assert(items.push(x)[0] == items[0]);
        assert(ser_items(items.push(x)) =~= ser_items(items) + ser_item(x.0, x.1));
    }
}

pub proof fn lemma_ser_items_empty(items: Seq<(u64, Seq<u8>)>)
    ensures ser_items(items).len() == 0 <==> items.len() == 0,
{
    lemma_auto_spec_u64_to_from_le_bytes();
    lemma_auto_spec_u32_to_from_le_bytes();
    if items.len() > 0 {
        assert(ser_item(items[0].0, items[0].1).len() >= 12);
    }
}

// ------------------------------------------------------------------------------------ replay (C01)
/// apply the items of an AppendRecords entry to queue k; None: an item is at a stale position
/// (reported as Corruption by open)
pub open spec fn replay_items(v: LogView, k: String, items: Seq<(u64, Seq<u8>)>) -> Option<LogView>
    decreases items.len(),
{
    if items.len() == 0 { Some(v) }
    else if !v.contains_key(k) || items[0].0 < v[k].next() { None }
    else { replay_items(v.insert(k, v[k].append(items[0].0, items[0].1)), k, items.skip(1)) }
}

/// The replay rule: what open does with one decoded WAL entry (C01 / C09 mechanism).
pub open spec fn replay_entry(v: LogView, e: EntryView) -> Option<LogView> {
    let k = skey(e.queue);
    if e.kind == 4 {
        // AppendRecords: an unknown queue is (re)created at the entry's position first
        let v1 = if !v.contains_key(k) { log_ack(v, k, e.position) } else { v };
        match parse_items(e.body) { None => None, Some(items) => replay_items(v1, k, items) }
    } else if e.kind == 1 {
        // Truncate(..=position); unknown queue: ignored
        if v.contains_key(k) { Some(v.insert(k, v[k].truncate(e.position))) } else { Some(v) }
    } else if e.kind == 2 {
        // RecordPosition(next = position)
        Some(log_ack(v, k, e.position))
    } else {
        // DeleteQueue; unknown queue: ignored
        Some(v.remove(k))
    }
}


/// replay a sequence of entries from state v (None: open reports Corruption)
pub open spec fn replay_all(v: LogView, es: Seq<EntryView>) -> Option<LogView>
    decreases es.len(),
{
    if es.len() == 0 { Some(v) } else {
        match replay_entry(v, es[0]) { None => None, Some(v1) => replay_all(v1, es.skip(1)) }
    }
}

/// when no entry is being assembled, the bytes left in the reassembly buffer do not matter
pub proof fn lemma_rec_step_buf_irrelevant(blocks: Seq<Seq<u8>>, p: RdPos, b1: Seq<u8>, b2: Seq<u8>)
    requires pos_ok(blocks, p), blocks_ok(blocks),
    ensures
        match (rec_step(blocks, p, false, b1), rec_step(blocks, p, false, b2)) {
            (RStep::Record { bytes: x1, next: n1 }, RStep::Record { bytes: x2, next: n2 }) => x1 == x2 && n1 == n2,
            (RStep::Corrupt { next: n1 }, RStep::Corrupt { next: n2 }) => n1 == n2,
            (RStep::End { next: n1, within: w1, buf: e1 }, RStep::End { next: n2, within: w2, buf: e2 }) => n1 == n2 && w1 == w2 && (w1 ==> e1 == e2),
            _ => false,
        },
    decreases blocks.len() - p.idx, (if p.corrupted { 0int } else { 1int }), BLOCK() - p.cursor,
{
    lemma_frame_step_progress(blocks, p);
    match frame_step(blocks, p) {
        FStep::Frame { ty, payload, next } => {
            if !type_is_first(ty) {
                lemma_rec_step_buf_irrelevant(blocks, next, b1, b2);
            }
        }
        _ => {}
    }
}

/// WHAT OPEN COMPUTES (C01 / C08 / C09 end to end, over the block stream recovery reads): starting from reader state (p, within, buf) and
/// logical state v, take entries as the reading rule `rec_step` delivers them; a damaged frame (Corrupt) and an entry that does not decode
/// are skipped; every other entry is applied with the replay rule; `None` = open reports Corruption (an entry the replay rule rejects).
pub open spec fn replay_log(blocks: Seq<Seq<u8>>, p: RdPos, within: bool, buf: Seq<u8>, v: LogView) -> Option<LogView>
    decreases blocks.len() - p.idx, (if p.corrupted { 0int } else { 1int }), BLOCK() - p.cursor,
    when pos_ok(blocks, p) && blocks_ok(blocks)
    via replay_log_decreases
{
    match rec_step(blocks, p, within, buf) {
        RStep::End { .. } => Some(v),
        RStep::Corrupt { next } => replay_log(blocks, next, false, Seq::empty(), v),
        RStep::Record { bytes, next } => match parse_entry(bytes) {
            None => replay_log(blocks, next, false, bytes, v),
            Some(e) => match replay_entry(v, e) {
                None => None,
                Some(v1) => replay_log(blocks, next, false, bytes, v1),
            },
        },
    }
}

#[via_fn]
proof fn replay_log_decreases(blocks: Seq<Seq<u8>>, p: RdPos, within: bool, buf: Seq<u8>, v: LogView) {
    lemma_rec_step_progress(blocks, p, within, buf);
}

/// the reassembly buffer does not matter to replay_log either, when no entry is being assembled
pub proof fn lemma_replay_log_buf_irrelevant(blocks: Seq<Seq<u8>>, p: RdPos, b1: Seq<u8>, b2: Seq<u8>, v: LogView)
    requires pos_ok(blocks, p), blocks_ok(blocks),
    ensures replay_log(blocks, p, false, b1, v) == replay_log(blocks, p, false, b2, v),
{
    lemma_rec_step_buf_irrelevant(blocks, p, b1, b2);
}

/// L-C01 (history level): if every call of a history wrote an entry whose replay on the pre-state gives the
/// post-state (the per-call obligations O-C01-commute-*, O-C12-one), then replaying the entries of the whole
/// history from its initial state gives its final state.  States: vs[0] .. vs[n]; entries es[0] .. es[n-1].
pub proof fn lemma_replay_history(vs: Seq<LogView>, es: Seq<EntryView>)
    requires
        vs.len() == es.len() + 1,
        forall|i: int| 0 <= i < es.len() ==> replay_entry(#[trigger] vs[i], es[i]) == Some(vs[i + 1]),
    ensures
        replay_all(vs[0], es) == Some(vs.last()),
    decreases es.len(),
{
    if es.len() > 0 {
        let vs2 = vs.skip(1);
        let es2 = es.skip(1);
        assert forall|i: int| 0 <= i < es2.len() implies replay_entry(#[trigger] vs2[i], es2[i]) == Some(vs2[i + 1]) by {
            assert(vs2[i] == vs[i + 1]);
            assert(es2[i] == es[i + 1]);
            assert(vs2[i + 1] == vs[i + 2]);
        }
        lemma_replay_history(vs2, es2);
        assert(vs2[0] == vs[1]);
        assert(vs2.last() == vs.last());
    }
}

/// L-C01-append: replaying a batch whose positions start at or after `next` and increase by one is
/// exactly appending the batch
pub proof fn lemma_replay_items_is_append_all(v: LogView, k: String, items: Seq<(u64, Seq<u8>)>, pos: u64)
    requires
        v.contains_key(k), pos >= v[k].next(), pos + items.len() <= u64::MAX,
        forall|i: int| 0 <= i < items.len() ==> (#[trigger] items[i]).0 == pos + i,
    ensures
        replay_items(v, k, items) == Some(v.insert(k, append_all(v[k], items))),
    decreases items.len(),
{
    if items.len() == 0 {
        assert(v.insert(k, v[k]) =~= v);
    } else {
        let q1 = v[k].append(items[0].0, items[0].1);
        let v1 = v.insert(k, q1);
        assert(q1.next() == pos + 1);
        assert forall|i: int| 0 <= i < items.skip(1).len() implies (#[trigger] items.skip(1)[i]).0 == (pos + 1) + i by {
            assert(items.skip(1)[i] == items[i + 1]);
        }
        lemma_replay_items_is_append_all(v1, k, items.skip(1), (pos + 1) as u64);
        assert(v1.insert(k, append_all(q1, items.skip(1))) =~= v.insert(k, append_all(v[k], items)));
    }
}

} // verus!
