// Ghost specification shared by all units (DESIGN.md 3).  No repo code here.
use vstd::prelude::*;
use vstd::bytes::*;
verus! {

// ------------------------------------------------------------------------------------ frames
pub uninterp spec fn crc32_spec(data: Seq<u8>, frame_type: u8) -> u32;

pub open spec fn BLOCK() -> int { 32768 }
pub open spec fn HDR() -> int { 7 }

pub open spec fn zeros(n: int) -> Seq<u8> { Seq::new(n as nat, |i: int| 0u8) }

/// serialized frame header: crc32 (le) | len (le) | type
pub open spec fn hdr_bytes(crc: u32, len: u16, ty: u8) -> Seq<u8> {
    spec_u32_to_le_bytes(crc) + spec_u16_to_le_bytes(len) + seq![ty]
}

pub open spec fn valid_type(b: u8) -> bool { 1 <= b <= 4 }
pub open spec fn type_is_first(b: u8) -> bool { b == 1 || b == 2 }
pub open spec fn type_is_last(b: u8) -> bool { b == 1 || b == 4 }

/// bytes remaining in the block when the stream position is `pos`
pub open spec fn rem_in_block(pos: int) -> int { BLOCK() - pos % BLOCK() }

/// zero padding written before a frame when fewer than a header remain in the block
pub open spec fn pad_len(pos: int) -> int { if rem_in_block(pos) < HDR() { rem_in_block(pos) } else { 0 } }

/// largest payload of a frame written at stream position `pos`
pub open spec fn max_frame_payload(pos: int) -> int {
    if rem_in_block(pos) >= HDR() { rem_in_block(pos) - HDR() } else { BLOCK() - HDR() }
}

/// bytes pushed to the block writer by one write_frame at stream position `pos`
pub open spec fn frame_enc(pos: int, ty: u8, payload: Seq<u8>) -> Seq<u8> {
    zeros(pad_len(pos)) + hdr_bytes(crc32_spec(payload, ty), payload.len() as u16, ty) + payload
}

pub open spec fn frame_type_code(first: bool, last: bool) -> u8 {
    if first && last { 1 } else if first { 2 } else if last { 4 } else { 3 }
}

/// bytes pushed by write_record for a serialized entry `payload` starting at stream position `pos`
pub open spec fn enc(pos: int, payload: Seq<u8>, first: bool) -> Seq<u8>
    decreases payload.len(), (if max_frame_payload(pos) == 0 { 1int } else { 0int }),
{
    let avail = max_frame_payload(pos);
    let n = if avail < payload.len() { avail } else { payload.len() as int };
    let last = n == payload.len();
    let f = frame_enc(pos, frame_type_code(first, last), payload.take(n));
    if pos < 0 { f } else if last { f } else { f + enc(pos + f.len(), payload.skip(n), false) }
}

// ------------------------------------------------------------------------------------ frame reader
/// position of a frame reader inside the sequence of blocks
pub struct RdPos { pub idx: int, pub cursor: int, pub corrupted: bool }

pub enum FStep {
    /// a CRC-valid frame was delivered
    Frame { ty: u8, payload: Seq<u8>, next: RdPos },
    /// damaged frame: reported as Corruption
    Corrupt { next: RdPos },
    /// no (more) frame available: reported as NotAvailable
    End { next: RdPos },
}

impl FStep {
    pub open spec fn next(self) -> RdPos {
        match self { FStep::Frame { next, .. } => next, FStep::Corrupt { next } => next, FStep::End { next } => next }
    }
}

/// leave the current block if it is quarantined or has no room for a header; None: no next block
pub open spec fn skip_step(blocks: Seq<Seq<u8>>, p: RdPos) -> Option<RdPos> {
    if p.corrupted || BLOCK() - p.cursor < HDR() {
        if p.idx + 1 < blocks.len() { Some(RdPos { idx: p.idx + 1, cursor: 0, corrupted: false }) } else { None }
    } else { Some(p) }
}

/// The frame-level reading rule (C08/C09): what one read of a frame does at position `p`.
pub open spec fn frame_step(blocks: Seq<Seq<u8>>, p: RdPos) -> FStep {
    match skip_step(blocks, p) {
        None => FStep::End { next: p },
        Some(q) => {
            let blk = blocks[q.idx];
            let hb = blk.subrange(q.cursor, q.cursor + HDR());
            if hb == zeros(HDR()) {
                FStep::End { next: q }
            } else if !valid_type(hb[6]) {
                // undecodable header: quarantine the rest of the block
                FStep::Corrupt { next: RdPos { corrupted: true, ..q } }
            } else {
                let len = spec_u16_from_le_bytes(hb.subrange(4, 6)) as int;
                let c = q.cursor + HDR();
                if c + len > BLOCK() {
                    // frame would cross the block end: quarantine the rest of the block
                    FStep::Corrupt { next: RdPos { idx: q.idx, cursor: c, corrupted: true } }
                } else {
                    let payload = blk.subrange(c, c + len);
                    let next = RdPos { idx: q.idx, cursor: c + len, corrupted: false };
                    if crc32_spec(payload, hb[6]) != spec_u32_from_le_bytes(hb.subrange(0, 4)) {
                        // CRC mismatch: skip exactly this frame, keep the block
                        FStep::Corrupt { next }
                    } else {
                        FStep::Frame { ty: hb[6], payload, next }
                    }
                }
            }
        }
    }
}

/// strict progress of a reader position (lexicographic: block, quarantine flag, cursor)
pub open spec fn rd_progress(a: RdPos, b: RdPos) -> bool {
    b.idx > a.idx || (b.idx == a.idx && !a.corrupted && b.corrupted)
        || (b.idx == a.idx && a.corrupted == b.corrupted && b.cursor > a.cursor)
}

} // verus!
