// Weighted sums over finite maps, and the C16 (memory accounting) statements over the abstract log view.
// Spec level only: no repo code.  L-C16-* are the lemmas the evidence of C16 lists.
use vstd::prelude::*;
use crate::vspec::*;
verus! {

/// weighted sum over a (finite) map
pub open spec fn wsum<K, V>(m: Map<K, V>, w: spec_fn(K, V) -> int) -> int
    decreases m.dom().len(),
{
    if m.dom().len() == 0 { 0 } else {
        let k = m.dom().choose();
        w(k, m[k]) + wsum(m.remove(k), w)
    }
}

/// any key can be taken out first (the order of summation does not matter)
pub proof fn lemma_wsum_pick<K, V>(m: Map<K, V>, w: spec_fn(K, V) -> int, k: K)
    requires m.contains_key(k),
    ensures wsum(m, w) == w(k, m[k]) + wsum(m.remove(k), w),
    decreases m.dom().len(),
{
    let c = m.dom().choose();
    assert(m.dom().contains(k));
    assert(m.dom().len() > 0);
    if c != k {
        assert(m.dom().contains(c));
        lemma_wsum_pick(m.remove(c), w, k);
        lemma_wsum_pick(m.remove(k), w, c);
        assert(m.remove(c).remove(k) =~= m.remove(k).remove(c));
    }
}

/// sum of a sequence of terms
pub open spec fn isum(s: Seq<int>) -> int
    decreases s.len(),
{
    if s.len() == 0 { 0 } else { isum(s.drop_last()) + s.last() }
}

/// L-wsum-enum: summing the weights along ANY duplicate-free enumeration of the entries of a map gives the weighted sum
/// (this is what `map.iter().map(|(k, v)| weight).sum()` computes, whatever order the hash map iterates in)
pub proof fn lemma_wsum_enumeration<K, V>(m: Map<K, V>, kv: Seq<(K, V)>, w: spec_fn(K, V) -> int)
    requires
        kv.no_duplicates(),
        kv.to_set() == m.kv_pairs(),
    ensures
        isum(Seq::new(kv.len(), |i: int| w(kv[i].0, kv[i].1))) == wsum(m, w),
    decreases kv.len(),
{
    let terms = Seq::new(kv.len(), |i: int| w(kv[i].0, kv[i].1));
    if kv.len() == 0 {
        assert(m.dom() =~= Set::<K>::empty()) by {
            assert forall|k: K| !m.dom().contains(k) by {
                if m.dom().contains(k) { assert(m.kv_pairs().contains((k, m[k]))); assert(kv.to_set().contains((k, m[k]))); }
            }
        }
        assert(m.dom().len() == 0);
    } else {
        let n = kv.len() as int;
        let (k, v) = kv[n - 1];
        assert(kv.to_set().contains(kv[n - 1]));
        assert(m.kv_pairs().contains((k, v)));
        assert(m.contains_key(k) && m[k] == v);
        let kv2 = kv.drop_last();
        let m2 = m.remove(k);
        assert(kv2.no_duplicates());
        assert(kv2.to_set() =~= m2.kv_pairs()) by {
            assert forall|p: (K, V)| kv2.to_set().contains(p) <==> m2.kv_pairs().contains(p) by {
                if kv2.contains(p) {
                    let i = choose|i: int| 0 <= i < kv2.len() && kv2[i] == p;
                    assert(kv[i] == p && i != n - 1);
                    assert(kv.to_set().contains(p));
                    assert(m.kv_pairs().contains(p));
                    if p.0 == k { assert(p == (k, v)); assert(kv[i] == kv[n - 1]); }
                }
                if m2.kv_pairs().contains(p) {
                    assert(m.kv_pairs().contains(p));
                    assert(kv.contains(p));
                    let i = choose|i: int| 0 <= i < kv.len() && kv[i] == p;
                    assert(i != n - 1);
                    assert(kv2[i] == p);
                }
            }
        }
        lemma_wsum_enumeration(m2, kv2, w);
        let terms2 = Seq::new(kv2.len(), |i: int| w(kv2[i].0, kv2[i].1));
        assert(terms.drop_last() =~= terms2);
        lemma_wsum_pick(m, w, k);
    }
}

/// non-negative weights: the sum is non-negative and bounds every term
pub proof fn lemma_wsum_nonneg<K, V>(m: Map<K, V>, w: spec_fn(K, V) -> int)
    requires forall|j: K| m.contains_key(j) ==> w(j, m[j]) >= 0,
    ensures wsum(m, w) >= 0,
    decreases m.dom().len(),
{
    if m.dom().len() > 0 {
        let k = m.dom().choose();
        assert(m.dom().contains(k));
        lemma_wsum_nonneg(m.remove(k), w);
    }
}
pub proof fn lemma_wsum_term_le<K, V>(m: Map<K, V>, w: spec_fn(K, V) -> int, k: K)
    requires m.contains_key(k), forall|j: K| m.contains_key(j) ==> w(j, m[j]) >= 0,
    ensures 0 <= w(k, m[k]) <= wsum(m, w),
{
    lemma_wsum_pick(m, w, k);
    lemma_wsum_nonneg(m.remove(k), w);
}
/// usum (vshim: what `.sum()` of usize terms is) against isum
pub proof fn lemma_usum_isum(u: Seq<usize>, t: Seq<int>)
    requires u.len() == t.len(), forall|j: int| 0 <= j < u.len() ==> u[j] as int == t[j],
    ensures crate::vshim::usum(u) == isum(t),
    decreases u.len(),
{
    if u.len() > 0 {
        lemma_usum_isum(u.drop_last(), t.drop_last());
    }
}

/// changing (or adding) one entry changes the sum by the difference of its weights
pub proof fn lemma_wsum_insert<K, V>(m: Map<K, V>, w: spec_fn(K, V) -> int, k: K, v: V)
    ensures wsum(m.insert(k, v), w) == wsum(m, w) + w(k, v) - (if m.contains_key(k) { w(k, m[k]) } else { 0 }),
{
    let m2 = m.insert(k, v);
    lemma_wsum_pick(m2, w, k);
    assert(m2.remove(k) =~= m.remove(k));
    if m.contains_key(k) {
        lemma_wsum_pick(m, w, k);
    } else {
        assert(m.remove(k) =~= m);
    }
}

pub proof fn lemma_wsum_remove<K, V>(m: Map<K, V>, w: spec_fn(K, V) -> int, k: K)
    ensures wsum(m.remove(k), w) == wsum(m, w) - (if m.contains_key(k) { w(k, m[k]) } else { 0 }),
{
    if m.contains_key(k) {
        lemma_wsum_pick(m, w, k);
    } else {
        assert(m.remove(k) =~= m);
    }
}

/// pointwise <= gives <= of the sums (two maps over the same keys)
pub proof fn lemma_wsum_le<K, V1, V2>(m1: Map<K, V1>, w1: spec_fn(K, V1) -> int, m2: Map<K, V2>, w2: spec_fn(K, V2) -> int)
    requires
        m1.dom() == m2.dom(),
        forall|k: K| #[trigger] m1.contains_key(k) ==> w1(k, m1[k]) <= w2(k, m2[k]),
    ensures wsum(m1, w1) <= wsum(m2, w2),
    decreases m1.dom().len(),
{
    if m1.dom().len() > 0 {
        let k = m1.dom().choose();
        assert(m1.contains_key(k));
        assert(m1.remove(k).dom() =~= m2.remove(k).dom());
        assert forall|j: K| #[trigger] m1.remove(k).contains_key(j) implies w1(j, m1.remove(k)[j]) <= w2(j, m2.remove(k)[j]) by {
            assert(m1.contains_key(j));
        }
        lemma_wsum_le(m1.remove(k), w1, m2.remove(k), w2);
    }
}

/// pointwise equality gives equality of the sums
pub proof fn lemma_wsum_eq<K, V1, V2>(m1: Map<K, V1>, w1: spec_fn(K, V1) -> int, m2: Map<K, V2>, w2: spec_fn(K, V2) -> int)
    requires
        m1.dom() == m2.dom(),
        forall|k: K| #[trigger] m1.contains_key(k) ==> w1(k, m1[k]) == w2(k, m2[k]),
    ensures wsum(m1, w1) == wsum(m2, w2),
{
    lemma_wsum_le(m1, w1, m2, w2);
    assert forall|k: K| #[trigger] m2.contains_key(k) implies w2(k, m2[k]) <= w1(k, m1[k]) by {
        assert(m1.contains_key(k));
    }
    lemma_wsum_le(m2, w2, m1, w1);
}

/// sums add up
pub proof fn lemma_wsum_add<K, V>(m: Map<K, V>, w1: spec_fn(K, V) -> int, w2: spec_fn(K, V) -> int, w: spec_fn(K, V) -> int)
    requires forall|k: K, v: V| #[trigger] w(k, v) == w1(k, v) + w2(k, v),
    ensures wsum(m, w) == wsum(m, w1) + wsum(m, w2),
    decreases m.dom().len(),
{
    if m.dom().len() > 0 {
        let k = m.dom().choose();
        lemma_wsum_add(m.remove(k), w1, w2, w);
    }
}

// ------------------------------------------------------------------------------------ C16 over the abstract view
/// memory attributed to one queue: its name, its retained payload bytes, and `c` bytes of bookkeeping per retained record
pub open spec fn q_used(c: int) -> spec_fn(String, QView) -> int {
    |k: String, q: QView| name_bytes(k@).len() + q.payload_bytes() + q.recs.len() * c
}
pub open spec fn w_names() -> spec_fn(String, QView) -> int { |k: String, q: QView| name_bytes(k@).len() as int }
pub open spec fn w_payload() -> spec_fn(String, QView) -> int { |k: String, q: QView| q.payload_bytes() }
pub open spec fn w_overhead(c: int) -> spec_fn(String, QView) -> int { |k: String, q: QView| q.recs.len() * c }
pub open spec fn w_np() -> spec_fn(String, QView) -> int { |k: String, q: QView| name_bytes(k@).len() + q.payload_bytes() }

/// what `memory_used_bytes` is specified to be, as a function of the abstract state
pub open spec fn used_view(v: LogView, c: int) -> int { wsum(v, q_used(c)) }

pub proof fn lemma_payload_bytes_nonneg(q: QView)
    ensures q.payload_bytes() >= 0,
    decreases q.recs.len(),
{
    if q.recs.len() > 0 {
        lemma_payload_bytes_nonneg(QView { start: q.start, recs: q.recs.drop_last() });
    }
}

/// L-C16-bounds: used = names + retained payload + c per retained record; in particular at least names + payload
pub proof fn lemma_used_bounds(v: LogView, c: int)
    requires c >= 0,
    ensures
        used_view(v, c) == wsum(v, w_names()) + wsum(v, w_payload()) + wsum(v, w_overhead(c)),
        used_view(v, c) >= wsum(v, w_names()) + wsum(v, w_payload()),
{
    lemma_wsum_add(v, w_names(), w_payload(), w_np());
    lemma_wsum_add(v, w_np(), w_overhead(c), q_used(c));
    let zero = |k: String, q: QView| 0int;
    assert forall|k: String| #[trigger] v.contains_key(k) implies zero(k, v[k]) <= w_overhead(c)(k, v[k]) by {
        assert(v[k].recs.len() * c >= 0) by (nonlinear_arith) requires v[k].recs.len() >= 0, c >= 0;
    }
    lemma_wsum_le(v, zero, v, w_overhead(c));
    lemma_wsum_zero(v);
}

pub proof fn lemma_wsum_zero<K, V>(m: Map<K, V>)
    ensures wsum(m, |k: K, v: V| 0int) == 0,
    decreases m.dom().len(),
{
    if m.dom().len() > 0 {
        lemma_wsum_zero(m.remove(m.dom().choose()));
    }
}

/// L-C16-baseline: when every queue is empty, used is the names-only baseline
pub proof fn lemma_used_all_empty(v: LogView, c: int)
    requires forall|k: String| #[trigger] v.contains_key(k) ==> v[k].recs.len() == 0,
    ensures used_view(v, c) == wsum(v, w_names()),
{
    assert forall|k: String| #[trigger] v.contains_key(k) implies q_used(c)(k, v[k]) == w_names()(k, v[k]) by {
        assert(v[k].payload_bytes() == 0);
    }
    lemma_wsum_eq(v, q_used(c), v, w_names());
}

/// payload bytes split along a position: retained (> p) + evicted (<= p)
pub proof fn lemma_payload_split(start: u64, recs: Seq<(u64, Seq<u8>)>, p: u64)
    ensures
        (QView { start, recs }).payload_bytes()
            == (QView { start, recs: recs.filter(pred_gt(p)) }).payload_bytes() + (QView { start, recs: recs.filter(pred_le(p)) }).payload_bytes(),
    decreases recs.len(),
{
    reveal(Seq::filter);
    if recs.len() > 0 {
        let r2 = recs.drop_last();
        let x = recs.last();
        lemma_payload_split(start, r2, p);
        if x.0 > p {
            assert(recs.filter(pred_gt(p)) =~= r2.filter(pred_gt(p)).push(x));
            assert(recs.filter(pred_le(p)) =~= r2.filter(pred_le(p)));
            assert(r2.filter(pred_gt(p)).push(x).drop_last() =~= r2.filter(pred_gt(p)));
        } else {
            assert(recs.filter(pred_le(p)) =~= r2.filter(pred_le(p)).push(x));
            assert(recs.filter(pred_gt(p)) =~= r2.filter(pred_gt(p)));
            assert(r2.filter(pred_le(p)).push(x).drop_last() =~= r2.filter(pred_le(p)));
        }
    } else {
        assert(recs.filter(pred_gt(p)) =~= Seq::<(u64, Seq<u8>)>::empty());
        assert(recs.filter(pred_le(p)) =~= Seq::<(u64, Seq<u8>)>::empty());
    }
}

/// the payload bytes a truncation evicts: those of the records at or below p (none if p is below the start)
pub open spec fn evicted_bytes(q: QView, p: u64) -> int {
    if p < q.start { 0 } else { (QView { start: q.start, recs: q.recs.filter(pred_le(p)) }).payload_bytes() }
}

/// L-C16-truncate: a truncation lowers `used` by exactly the evicted payload bytes plus c per evicted record
pub proof fn lemma_used_truncate(v: LogView, c: int, k: String, p: u64)
    requires v.contains_key(k), v[k].wf(), p < u64::MAX,
    ensures
        used_view(v.insert(k, v[k].truncate(p)), c) == used_view(v, c) - evicted_bytes(v[k], p) - v[k].truncate_count(p) * c,
{
    let q = v[k];
    let q2 = q.truncate(p);
    lemma_wsum_insert(v, q_used(c), k, q2);
    if p < q.start {
    } else {
        lemma_payload_split(q.start, q.recs, p);
        lemma_filter_len_split(q.recs, p);
        if p + 1 >= q.next() {
            // everything is at or below p
            assert forall|i: int| 0 <= i < q.recs.len() implies !pred_gt(p)(#[trigger] q.recs[i]) by {
                assert(q.recs[i].0 <= q.recs.last().0);
            }
            lemma_filter_none(q.recs, p);
            assert(q2.recs.len() == 0);
            assert(q2.payload_bytes() == 0);
            assert(QView { start: q.start, recs: q.recs.filter(pred_gt(p)) }.payload_bytes() == 0);
        } else {
            assert(q2.recs == q.recs.filter(pred_gt(p)));
            lemma_payload_start_irrelevant(q.start, (p + 1) as u64, q.recs.filter(pred_gt(p)));
        }
        assert((q.recs.len() - q.truncate_count(p)) * c == q.recs.len() * c - q.truncate_count(p) * c) by (nonlinear_arith);
    }
}

pub proof fn lemma_payload_start_irrelevant(s1: u64, s2: u64, recs: Seq<(u64, Seq<u8>)>)
    ensures (QView { start: s1, recs }).payload_bytes() == (QView { start: s2, recs }).payload_bytes(),
    decreases recs.len(),
{
    if recs.len() > 0 {
        lemma_payload_start_irrelevant(s1, s2, recs.drop_last());
    }
}

pub proof fn lemma_filter_len_split(recs: Seq<(u64, Seq<u8>)>, p: u64)
    ensures recs.filter(pred_gt(p)).len() + recs.filter(pred_le(p)).len() == recs.len(),
    decreases recs.len(),
{
    reveal(Seq::filter);
    if recs.len() > 0 {
        lemma_filter_len_split(recs.drop_last(), p);
    }
}

pub proof fn lemma_filter_none(recs: Seq<(u64, Seq<u8>)>, p: u64)
    requires forall|i: int| 0 <= i < recs.len() ==> !pred_gt(p)(#[trigger] recs[i]),
    ensures recs.filter(pred_gt(p)).len() == 0,
    decreases recs.len(),
{
    reveal(Seq::filter);
    if recs.len() > 0 {
        let r2 = recs.drop_last();
        assert forall|i: int| 0 <= i < r2.len() implies !pred_gt(p)(#[trigger] r2[i]) by { assert(r2[i] == recs[i]); }
        lemma_filter_none(r2, p);
        assert(!pred_gt(p)(recs[recs.len() - 1]));
    }
}

} // verus!
