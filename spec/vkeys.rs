// Assumed specs of the derived `Ord` on FileNumber (orders by the number), used by the BTreeSet that tracks
// the WAL files.  In a module of its own so that rolling/* can `broadcast use` it (no definition cycle).
use vstd::prelude::*;
use crate::rolling::FileNumber;
verus! {
pub broadcast axiom fn axiom_file_number_key()
    ensures #[trigger] vstd::std_specs::btree::key_obeys_cmp_spec::<FileNumber>();
pub broadcast axiom fn axiom_file_number_ord(a: FileNumber, b: FileNumber)
    ensures #[trigger] crate::std_specs::ord_le::<FileNumber>(a, b) <==> *a.file_number <= *b.file_number;
pub broadcast group group_file_number { axiom_file_number_key, axiom_file_number_ord }
} // verus!
