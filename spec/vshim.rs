// Shims of rewrite rules R6, R7, R10 (DESIGN.md 2.2). Bodies call the std function; the
// contracts are the trusted part (listed in every evidence file).
use vstd::prelude::*;
#[allow(unused_imports)] use vstd::std_specs::iter::IteratorSpec;
verus! {

/// R10: local stand-in for the trait `bytes::Buf` (only the four methods the repo calls).  The contract is the
/// documented one of `bytes::Buf`, ASSUMED of every implementor the callers pass in: a Buf is a cursor over a byte
/// string `rem()`; `chunk()` is a prefix of it, non-empty while bytes remain; `advance(n)` drops n bytes.
pub trait Buf {
    /// ghost: the bytes not yet consumed
    spec fn rem(&self) -> Seq<u8>;
    fn remaining(&self) -> (r: usize)
        ensures r == self.rem().len();
    /// ghost: what chunk() returns in this state (it is a function of the state: two calls agree)
    spec fn chunk_spec(&self) -> Seq<u8>;
    fn chunk(&self) -> (r: &[u8])
        ensures
            r@ == self.chunk_spec(),
            r@.len() <= self.rem().len(),
            r@ == self.rem().subrange(0, r@.len() as int),
            self.rem().len() > 0 ==> r@.len() > 0;
    fn advance(&mut self, cnt: usize)
        requires cnt <= old(self).rem().len(),
        ensures final(self).rem() == old(self).rem().skip(cnt as int);
    fn has_remaining(&self) -> (r: bool)
        ensures r == (self.rem().len() > 0);
}

/// R20: `file.read_exact(&mut *block)` on a boxed 32 KiB block.  Assumed (std contract of `Read::read_exact` on a File, over the
/// ghost FS model of spec/vfs.rs): Ok only if a full block was left to read; it is delivered and consumed.
#[verifier::external_body]
pub fn read_exact_block(file: &mut std::fs::File, block: &mut Box<[u8; 32768]>) -> (r: std::io::Result<()>)
    ensures
        r is Ok ==> crate::vfs::file_rest(&*old(file)).len() > 0
            && (**final(block))@ == crate::vfs::file_rest(&*old(file))[0]
            && crate::vfs::file_rest(&*final(file)) == crate::vfs::file_rest(&*old(file)).skip(1),
{ use std::io::Read; file.read_exact(&mut **block) }

/// R20: `file.read_exact(block)` on a `&mut [u8; 32768]` (read_block).  Assumed over the ghost FS model: Ok only if a full block was
/// left (delivered and consumed); the error kind UnexpectedEof only if fewer than 32 KiB were left (then nothing more can be read).
#[verifier::external_body]
pub fn read_exact_arr(file: &mut std::fs::File, block: &mut [u8; 32768]) -> (r: std::io::Result<()>)
    ensures
        r is Ok ==> crate::vfs::file_rest(&*old(file)).len() > 0
            && final(block)@ == crate::vfs::file_rest(&*old(file))[0]
            && crate::vfs::file_rest(&*final(file)) == crate::vfs::file_rest(&*old(file)).skip(1),
        r matches Err(e) ==> (unexpected_eof(e) ==> crate::vfs::file_rest(&*old(file)).len() == 0 && crate::vfs::file_rest(&*final(file)).len() == 0),
{ use std::io::Read; file.read_exact(block) }

/// ghost: the error's kind is `io::ErrorKind::UnexpectedEof`
pub uninterp spec fn unexpected_eof(e: std::io::Error) -> bool;

/// R20: `e.kind() == io::ErrorKind::UnexpectedEof`
#[verifier::external_body]
pub fn is_unexpected_eof(e: &std::io::Error) -> (r: bool)
    ensures r == unexpected_eof(*e),
{ e.kind() == std::io::ErrorKind::UnexpectedEof }

/// R21: `Instant::now() + d` (no contract: only that it returns)
#[verifier::external_body]
pub fn instant_after(d: std::time::Duration) -> std::time::Instant
{ std::time::Instant::now() + d }

/// R22: `bounds.start_bound()` / `bounds.end_bound()` / `bounds.contains(&x)` through a generic `impl RangeBounds<T>`.  Assumed: the trait
/// methods return what vstd's spec of the trait (`spec_start_bound` / `spec_end_bound`, which vstd ties to every concrete std range type)
/// says; `contains` is the provided method of std: start bound <= x (or <) and x <= end bound (or <).
#[verifier::external_body]
pub fn start_bound<T, R: std::ops::RangeBounds<T>>(r: &R) -> (b: std::ops::Bound<&T>)
    ensures b == vstd::std_specs::range::RangeBoundsSpec::spec_start_bound(r),
{ r.start_bound() }

#[verifier::external_body]
pub fn end_bound<T, R: std::ops::RangeBounds<T>>(r: &R) -> (b: std::ops::Bound<&T>)
    ensures b == vstd::std_specs::range::RangeBoundsSpec::spec_end_bound(r),
{ r.end_bound() }

pub open spec fn bounds_contain(lo: std::ops::Bound<&u64>, hi: std::ops::Bound<&u64>, x: u64) -> bool {
    (match lo { std::ops::Bound::Included(p) => *p <= x, std::ops::Bound::Excluded(p) => *p < x, std::ops::Bound::Unbounded => true })
    && (match hi { std::ops::Bound::Included(p) => x <= *p, std::ops::Bound::Excluded(p) => x < *p, std::ops::Bound::Unbounded => true })
}

/// x lies within the range `r` (spec of `RangeBounds::<u64>::contains`)
pub open spec fn range_has<R: std::ops::RangeBounds<u64>>(r: &R, x: u64) -> bool {
    bounds_contain(vstd::std_specs::range::RangeBoundsSpec::spec_start_bound(r), vstd::std_specs::range::RangeBoundsSpec::spec_end_bound(r), x)
}

#[verifier::external_body]
pub fn range_contains<R: std::ops::RangeBounds<u64>>(r: &R, x: &u64) -> (b: bool)
    ensures b == range_has(r, *x),
{ r.contains(x) }

/// R22: `it.size_hint()`.  Assumed (std: "the implementation must return correct bounds"): lower <= number of remaining items <= upper.
#[verifier::external_body]
pub fn size_hint<T: Iterator>(it: &T) -> (r: (usize, Option<usize>))
    ensures
        r.0 <= it.remaining().len(),
        r.1 matches Some(u) ==> it.remaining().len() <= u,
{ it.size_hint() }

/// R26: `set.range((Excluded(k), Unbounded)).next()` on the tracker's `BTreeSet<FileNumber>` (ordered by number, looked up by `u64` through
/// `Borrow<u64>`).  Assumed (std contract of BTreeSet::range + the derived Ord): the least element whose number exceeds k, if any.
#[verifier::external_body]
pub fn btree_next_after<'a>(s: &'a std::collections::BTreeSet<crate::rolling::FileNumber>, k: u64) -> (r: Option<&'a crate::rolling::FileNumber>)
    ensures
        match r {
            Some(n) => s@.contains(*n) && k < *n.file_number
                && forall|m: crate::rolling::FileNumber| s@.contains(m) && k < *m.file_number ==> *n.file_number <= *m.file_number,
            None => forall|m: crate::rolling::FileNumber| s@.contains(m) ==> *m.file_number <= k,
        },
{ use std::ops::Bound::{Excluded, Unbounded}; s.range((Excluded(k), Unbounded)).next() }

/// R28: `it.map(f)`.  Assumed (std contract of Iterator::map): a finite well-behaved iterator stays so and the i-th item is f(i-th item of `it`).
/// ghost: the items of the iterator a mapped iterator was built from (a name for `it.remaining()`, so that a caller's proof can speak about it)
pub uninterp spec fn map_source<A, R>(r: &R) -> Seq<A>;

#[verifier::external_body]
pub fn iter_map<A, B, I: Iterator<Item = A>, F: Fn(A) -> B>(it: I, f: F) -> (r: impl Iterator<Item = B>)
    requires
        it.obeys_prophetic_iter_laws(),
        it.decrease() is Some,
        forall|j: int| 0 <= j < it.remaining().len() ==> call_requires(f, (#[trigger] it.remaining()[j],)),
    ensures
        r.obeys_prophetic_iter_laws(),
        r.decrease() is Some,
        r.remaining().len() == it.remaining().len(),
        forall|j: int| 0 <= j < it.remaining().len() ==> call_ensures(f, (it.remaining()[j],), #[trigger] r.remaining()[j]),
        map_source::<A, _>(&r) == it.remaining(),
{ it.map(f) }

/// R29: `std::fs::read_dir(p)`.  `ReadDir` is a foreign type, so vstd's iterator model cannot be attached to it (orphan rule): the stand-in
/// `DirIter` wraps it.  Assumed: it is a finite well-behaved iterator over the listing `dir_listing(p)` (spec/vfs.rs).
#[verifier::external_body]
pub struct DirIter { inner: std::fs::ReadDir }
impl Iterator for DirIter {
    type Item = std::io::Result<std::fs::DirEntry>;
    #[verifier::external_body]
    fn next(&mut self) -> Option<std::io::Result<std::fs::DirEntry>> { self.inner.next() }
}
impl vstd::std_specs::iter::IteratorSpecImpl for DirIter {
    open spec fn obeys_prophetic_iter_laws(&self) -> bool { true }
    uninterp spec fn remaining(&self) -> Seq<Self::Item>;
    uninterp spec fn will_return_none(&self) -> bool;
    uninterp spec fn decrease(&self) -> Option<nat>;
    uninterp spec fn peek(&self, index: int) -> Option<Self::Item>;
}
#[verifier::external_body]
pub fn read_dir(p: &std::path::Path) -> (r: std::io::Result<DirIter>)
    ensures r matches Ok(it) ==> it.obeys_prophetic_iter_laws() && it.decrease() is Some && it.remaining() == crate::vfs::dir_listing(p),
{ Ok(DirIter { inner: std::fs::read_dir(p)? }) }

/// R32: `deque.extend(slice.iter().copied())`.  Assumed (std contract of Extend for VecDeque): the bytes are appended in order.
#[verifier::external_body]
pub fn extend_copied(v: &mut std::collections::VecDeque<u8>, s: &[u8])
    ensures
        final(v)@ == old(v)@ + s@,
{ v.extend(s.iter().copied()) }

/// R31: `it.map(f).sum()` over usize terms.  Assumed (std contracts of Iterator::map and of Sum for usize): the result is the sum of f over the
/// items -- provided the mathematical sum fits usize (std panics on overflow in debug builds and wraps in release builds: NOT modelled; the
/// callers state the bound as a named physical assumption).
pub open spec fn usum(s: Seq<usize>) -> int
    decreases s.len(),
{
    if s.len() == 0 { 0 } else { usum(s.drop_last()) + s.last() }
}
/// `m` is what mapping `f` over `src` yields
pub open spec fn maps_to<A, F: Fn(A) -> usize>(f: &F, src: Seq<A>, m: Seq<usize>) -> bool {
    m.len() == src.len() && forall|j: int| 0 <= j < src.len() ==> call_ensures(*f, (src[j],), #[trigger] m[j])
}
#[verifier::external_body]
pub fn iter_map_sum<A, I: Iterator<Item = A>, F: Fn(A) -> usize>(it: I, f: &F) -> (r: usize)
    requires
        it.obeys_prophetic_iter_laws(),
        it.decrease() is Some,
        forall|j: int| 0 <= j < it.remaining().len() ==> call_requires(*f, (#[trigger] it.remaining()[j],)),
    ensures
        exists|m: Seq<usize>| #[trigger] maps_to(f, it.remaining(), m) && (usum(m) <= usize::MAX ==> r == usum(m)),
{ it.map(f).sum() }

/// R24: `(a..b).take_while(p).map(f)`.  Assumed (std contracts of Range<usize>, Iterator::take_while, Iterator::map): the result is a finite
/// well-behaved iterator yielding f(a), f(a+1), .., f(k-1) where k is the first index in a..b that p rejects (k = b if there is none);
/// p is only called on a..=k and f only on indices p accepted.  Closures are `Fn` (the repo's do not mutate their captures).
#[verifier::external_body]
pub fn range_take_while_map<T, P: Fn(&usize) -> bool, F: Fn(usize) -> T>(a: usize, b: usize, p: P, f: F) -> (r: impl Iterator<Item = T>)
    requires
        forall|i: usize| a <= i < b ==> call_requires(p, (&i,)),
        forall|i: usize| a <= i < b && call_ensures(p, (&i,), true) ==> call_requires(f, (i,)),
    ensures
        r.obeys_prophetic_iter_laws(),
        r.decrease() is Some,
        exists|k: usize| {
            &&& a <= k && (k <= b || k == a)
            &&& r.remaining().len() == k - a
            &&& (k < b ==> call_ensures(p, (&k,), false))
            &&& forall|j: int| 0 <= j < k - a ==> call_ensures(p, (&((a + j) as usize),), true) && call_ensures(f, ((a + j) as usize,), #[trigger] r.remaining()[j])
        },
{ (a..b).take_while(p).map(f) }

/// R19: `(start..).zip(it)`.  Assumed (the std contracts of RangeFrom<u64> and Zip): a well-behaved finite iterator
/// stays so, and the i-th pair is (start + i, i-th element of `it`).
#[verifier::external_body]
pub fn zip_from_raw<B, T: Iterator<Item = B>>(start: u64, it: T) -> (r: impl Iterator<Item = (u64, B)>)
    requires
        it.obeys_prophetic_iter_laws(),
        it.decrease() is Some,
        start + it.remaining().len() <= u64::MAX,
    ensures
        r.obeys_prophetic_iter_laws(),
        r.decrease() is Some,
        r.remaining().len() == it.remaining().len(),
        forall|i: int| 0 <= i < it.remaining().len() ==> #[trigger] r.remaining()[i] == ((start + i) as u64, it.remaining()[i]),
{ (start..).zip(it) }

/// the (position, payload bytes) pairs a zipped payload iterator yields
#[verifier::prophetic]
pub open spec fn zip_items<B: Buf, T: Iterator<Item = (u64, B)>>(it: T) -> Seq<(u64, Seq<u8>)> {
    Seq::new(it.remaining().len(), |i: int| (it.remaining()[i].0, it.remaining()[i].1.rem()))
}

/// verified wrapper: the pairs are exactly `items_of(start, payloads of it)`
pub fn zip_from<B: Buf, T: Iterator<Item = B>>(start: u64, it: T) -> (r: impl Iterator<Item = (u64, B)>)
    requires
        it.obeys_prophetic_iter_laws(),
        it.decrease() is Some,
        start + it.remaining().len() <= u64::MAX,
    ensures
        r.obeys_prophetic_iter_laws(),
        r.decrease() is Some,
        r.remaining().len() == it.remaining().len(),
        forall|i: int| 0 <= i < it.remaining().len() ==> #[trigger] r.remaining()[i] == ((start + i) as u64, it.remaining()[i]),
        zip_items(r) == crate::vspec::items_of(start, crate::vspec::iter_payloads(it)),
{
    let r = zip_from_raw(start, it);
    proof {
        reveal(crate::vspec::iter_payloads);
        assert(zip_items(r) =~= crate::vspec::items_of(start, crate::vspec::iter_payloads(it)));
    }
    r
}

#[verifier::external_body]
pub fn u16_from_le_array(a: [u8; 2]) -> (r: u16)
    ensures r == vstd::bytes::spec_u16_from_le_bytes(a@),
{ u16::from_le_bytes(a) }

#[verifier::external_body]
pub fn u32_from_le_array(a: [u8; 4]) -> (r: u32)
    ensures r == vstd::bytes::spec_u32_from_le_bytes(a@),
{ u32::from_le_bytes(a) }

#[verifier::external_body]
pub fn u64_from_le_array(a: [u8; 8]) -> (r: u64)
    ensures r == vstd::bytes::spec_u64_from_le_bytes(a@),
{ u64::from_le_bytes(a) }

#[verifier::external_body]
pub fn u16_from_le_slice(s: &[u8]) -> (r: u16)
    requires s@.len() == 2,
    ensures r == vstd::bytes::spec_u16_from_le_bytes(s@),
{ u16::from_le_bytes(s.try_into().unwrap()) }

#[verifier::external_body]
pub fn u32_from_le_slice(s: &[u8]) -> (r: u32)
    requires s@.len() == 4,
    ensures r == vstd::bytes::spec_u32_from_le_bytes(s@),
{ u32::from_le_bytes(s.try_into().unwrap()) }

#[verifier::external_body]
pub fn u64_from_le_slice(s: &[u8]) -> (r: u64)
    requires s@.len() == 8,
    ensures r == vstd::bytes::spec_u64_from_le_bytes(s@),
{ u64::from_le_bytes(s.try_into().unwrap()) }

#[verifier::external_body]
pub fn u16_to_le_bytes(x: u16) -> (r: [u8; 2])
    ensures r@ == vstd::bytes::spec_u16_to_le_bytes(x),
{ x.to_le_bytes() }

#[verifier::external_body]
pub fn u32_to_le_bytes(x: u32) -> (r: [u8; 4])
    ensures r@ == vstd::bytes::spec_u32_to_le_bytes(x),
{ x.to_le_bytes() }

#[verifier::external_body]
pub fn u64_to_le_bytes(x: u64) -> (r: [u8; 8])
    ensures r@ == vstd::bytes::spec_u64_to_le_bytes(x),
{ x.to_le_bytes() }

#[verifier::external_body]
pub fn vec_drain_front<T>(v: &mut Vec<T>, n: usize)
    requires n <= old(v)@.len(),
    ensures final(v)@ == old(v)@.subrange(n as int, old(v)@.len() as int),
{ v.drain(..n); }

#[verifier::external_body]
pub fn vecdeque_drain_to(v: &mut std::collections::VecDeque<u8>, r: std::ops::RangeTo<usize>)
    requires r.end <= old(v)@.len(),
    ensures final(v)@ == old(v)@.subrange(r.end as int, old(v)@.len() as int),
{ v.drain(r); }

/// R17: stand-in for `std::io::BufWriter<std::fs::File>` (only what the repo uses).  The wrapper holds the
/// real std type and every method calls the std method of the same name; the contracts are ASSUMED and are
/// phrased over three ghost quantities of the handle:
///   content()  the logical bytes between the start of the file and the write cursor,
///   flushed()  how long a prefix of content() has been handed to the OS (BufWriter buffer emptied),
///   synced()   how long a prefix of content() is on stable storage (fdatasync returned).
/// After an I/O error the logical cursor is modelled as advanced (the caller's own `offset` is advanced before
/// the call); what is on disk after a failed call is not modelled, only monotonicity of flushed()/synced().
#[verifier::external_body]
pub struct BufFile { inner: std::io::BufWriter<std::fs::File> }

impl BufFile {
    pub uninterp spec fn content(&self) -> Seq<u8>;
    pub uninterp spec fn flushed(&self) -> int;
    pub uninterp spec fn synced(&self) -> int;

    /// `BufWriter::with_capacity(cap, file)`: nothing buffered; what precedes the cursor is what the file holds
    #[verifier::external_body]
    pub fn with_capacity(cap: usize, file: std::fs::File) -> (r: BufFile)
        ensures
            r.content().len() == crate::vfs::file_pos(&file),
            r.flushed() == r.content().len(),
            r.synced() == r.content().len(),
    { BufFile { inner: std::io::BufWriter::with_capacity(cap, file) } }

    /// `Write::write_all`
    #[verifier::external_body]
    pub fn write_all(&mut self, buf: &[u8]) -> (r: std::io::Result<()>)
        ensures
            r is Ok ==> final(self).content() == old(self).content() + buf@,
            final(self).content().len() == old(self).content().len() + buf@.len(),
            final(self).flushed() >= old(self).flushed(),
            final(self).synced() == old(self).synced(),
    { use std::io::Write; self.inner.write_all(buf) }

    /// `Write::flush`: empties the BufWriter's buffer into the OS
    #[verifier::external_body]
    pub fn flush(&mut self) -> (r: std::io::Result<()>)
        ensures
            final(self).content() == old(self).content(),
            final(self).flushed() >= old(self).flushed(),
            final(self).synced() == old(self).synced(),
            r is Ok ==> final(self).flushed() == final(self).content().len(),
    { use std::io::Write; self.inner.flush() }

    /// `BufWriter::buffer`: the bytes not yet handed to the OS
    #[verifier::external_body]
    pub fn buffer(&self) -> (r: &[u8])
        ensures r@.len() == self.content().len() - self.flushed(),
    { self.inner.buffer() }

    /// `self.get_ref().sync_data()` (fdatasync): what the OS has been handed is on stable storage when it returns Ok
    #[verifier::external_body]
    pub fn sync_data(&mut self) -> (r: std::io::Result<()>)
        ensures
            final(self).content() == old(self).content(),
            final(self).flushed() == old(self).flushed(),
            final(self).synced() >= old(self).synced(),
            r is Ok ==> final(self).synced() == final(self).flushed(),
    { self.inner.get_ref().sync_data() }

    /// `Seek::seek`, modelled for forward relative seeks only (the one use in the repo): the bytes skipped are
    /// the ones the file already holds; a handle with nothing pending stays so
    #[verifier::external_body]
    pub fn seek(&mut self, pos: std::io::SeekFrom) -> (r: std::io::Result<u64>)
        ensures
            r is Ok ==> (match pos {
                std::io::SeekFrom::Current(n) => n >= 0 ==> {
                    &&& final(self).content().len() == old(self).content().len() + n
                    &&& final(self).flushed() == (if old(self).flushed() == old(self).content().len() { final(self).content().len() as int } else { old(self).flushed() })
                    &&& final(self).synced() == (if old(self).synced() == old(self).content().len() { final(self).content().len() as int } else { old(self).synced() })
                },
                _ => true,
            }),
    { use std::io::Seek; self.inner.seek(pos) }
}

} // verus!

/// R9: stand-in for the external crate `crc32fast` (only what the repo uses).  Assumed contract: a Hasher
/// accumulates the bytes it is fed, and `finalize` is an (uninterpreted) function of exactly those bytes.
pub mod crc32fast {
    use vstd::prelude::*;
    verus! {
    pub uninterp spec fn crc_of(bytes: Seq<u8>) -> u32;

    #[verifier::external_body]
    pub struct Hasher { _p: () }

    impl Hasher {
        pub uninterp spec fn input(&self) -> Seq<u8>;

        #[verifier::external_body]
        pub fn new() -> (r: Hasher)
            ensures r.input() == Seq::<u8>::empty(),
        { unimplemented!() }

        #[verifier::external_body]
        pub fn update(&mut self, buf: &[u8])
            ensures final(self).input() == old(self).input() + buf@,
        { unimplemented!() }

        #[verifier::external_body]
        pub fn finalize(self) -> (r: u32)
            ensures r == crc_of(self.input()),
        { unimplemented!() }
    }

    impl Default for Hasher {
        #[verifier::external_body]
        fn default() -> (r: Hasher)
            ensures r.input() == Seq::<u8>::empty(),
        { unimplemented!() }
    }

    #[verifier::external_body]
    pub fn hash(buf: &[u8]) -> (r: u32)
        ensures r == crc_of(buf@),
    { unimplemented!() }
    } // verus!
}

