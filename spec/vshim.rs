// Shims of rewrite rules R6, R7, R10 (DESIGN.md 2.2). Bodies call the std function; the
// contracts are the trusted part (listed in every evidence file).
use vstd::prelude::*;
verus! {

pub trait Buf {
    fn remaining(&self) -> usize;
    fn chunk(&self) -> &[u8];
    fn advance(&mut self, cnt: usize);
    fn has_remaining(&self) -> bool;
}

#[verifier::external_body]
pub fn u16_from_le_array(a: [u8; 2]) -> (r: u16)
    ensures r == vstd::bytes::spec_u16_from_le_bytes(a@),
{ u16::from_le_bytes(a) }

#[verifier::external_body]
pub fn u32_from_le_array(a: [u8; 4]) -> (r: u32)
    ensures r == vstd::bytes::spec_u32_from_le_bytes(a@),
{ u32::from_le_bytes(a) }

#[verifier::external_body]
pub fn u64_from_le_array(a: [u8; 8]) -> (r: u64)
    ensures r == vstd::bytes::spec_u64_from_le_bytes(a@),
{ u64::from_le_bytes(a) }

#[verifier::external_body]
pub fn u16_from_le_slice(s: &[u8]) -> (r: u16)
    requires s@.len() == 2,
    ensures r == vstd::bytes::spec_u16_from_le_bytes(s@),
{ u16::from_le_bytes(s.try_into().unwrap()) }

#[verifier::external_body]
pub fn u32_from_le_slice(s: &[u8]) -> (r: u32)
    requires s@.len() == 4,
    ensures r == vstd::bytes::spec_u32_from_le_bytes(s@),
{ u32::from_le_bytes(s.try_into().unwrap()) }

#[verifier::external_body]
pub fn u64_from_le_slice(s: &[u8]) -> (r: u64)
    requires s@.len() == 8,
    ensures r == vstd::bytes::spec_u64_from_le_bytes(s@),
{ u64::from_le_bytes(s.try_into().unwrap()) }

#[verifier::external_body]
pub fn u16_to_le_bytes(x: u16) -> (r: [u8; 2])
    ensures r@ == vstd::bytes::spec_u16_to_le_bytes(x),
{ x.to_le_bytes() }

#[verifier::external_body]
pub fn u32_to_le_bytes(x: u32) -> (r: [u8; 4])
    ensures r@ == vstd::bytes::spec_u32_to_le_bytes(x),
{ x.to_le_bytes() }

#[verifier::external_body]
pub fn u64_to_le_bytes(x: u64) -> (r: [u8; 8])
    ensures r@ == vstd::bytes::spec_u64_to_le_bytes(x),
{ x.to_le_bytes() }

#[verifier::external_body]
pub fn vec_drain_front<T>(v: &mut Vec<T>, n: usize)
    requires n <= old(v)@.len(),
    ensures final(v)@ == old(v)@.subrange(n as int, old(v)@.len() as int),
{ v.drain(..n); }

#[verifier::external_body]
pub fn vecdeque_drain_to(v: &mut std::collections::VecDeque<u8>, r: std::ops::RangeTo<usize>)
    requires r.end <= old(v)@.len(),
    ensures final(v)@ == old(v)@.subrange(r.end as int, old(v)@.len() as int),
{ v.drain(r); }

} // verus!

/// R9: stand-in for the external crate `crc32fast` (only what the repo uses).  Assumed contract: a Hasher
/// accumulates the bytes it is fed, and `finalize` is an (uninterpreted) function of exactly those bytes.
pub mod crc32fast {
    use vstd::prelude::*;
    verus! {
    pub uninterp spec fn crc_of(bytes: Seq<u8>) -> u32;

    #[verifier::external_body]
    pub struct Hasher { _p: () }

    impl Hasher {
        pub uninterp spec fn input(&self) -> Seq<u8>;

        #[verifier::external_body]
        pub fn new() -> (r: Hasher)
            ensures r.input() == Seq::<u8>::empty(),
        { unimplemented!() }

        #[verifier::external_body]
        pub fn update(&mut self, buf: &[u8])
            ensures final(self).input() == old(self).input() + buf@,
        { unimplemented!() }

        #[verifier::external_body]
        pub fn finalize(self) -> (r: u32)
            ensures r == crc_of(self.input()),
        { unimplemented!() }
    }

    impl Default for Hasher {
        #[verifier::external_body]
        fn default() -> (r: Hasher)
            ensures r.input() == Seq::<u8>::empty(),
        { unimplemented!() }
    }

    #[verifier::external_body]
    pub fn hash(buf: &[u8]) -> (r: u32)
        ensures r == crc_of(buf@),
    { unimplemented!() }
    } // verus!
}

