// L-C09 (one damaged frame): in-place damage confined to the checksum or payload bytes of ONE frame (length and type bytes intact,
// the damage detected by the CRC: the property's "up to a CRC-32 collision") costs exactly the one entry that frame belongs to.
// Everything the reading rule `rec_step` delivers from the damaged stream is: the entries before it, then the entries after it -- each
// whole and in order, wherever the frames happen to lie in their blocks.  Composes the writer rule `enc` with the reader rule, both of
// which the real code is verified against.  No repo code in this file.
use vstd::prelude::*;
use vstd::bytes::*;
use crate::vspec::*;
use crate::vroundtrip::*;
use crate::vtorn::*;
verus! {

/// every entry the reading rule delivers from reader state (q, within, buf) until the end of the log, Corruptions skipped
/// (this is the byte-level part of `replay_log`: what `open` feeds to the replay rule)
pub open spec fn read_all(blocks: Seq<Seq<u8>>, q: RdPos, within: bool, buf: Seq<u8>) -> Seq<Seq<u8>>
    decreases blocks.len() - q.idx, (if q.corrupted { 0int } else { 1int }), BLOCK() - q.cursor,
    when pos_ok(blocks, q) && blocks_ok(blocks)
    via read_all_decreases
{
    match rec_step(blocks, q, within, buf) {
        RStep::End { .. } => Seq::empty(),
        RStep::Corrupt { next } => read_all(blocks, next, false, Seq::empty()),
        RStep::Record { bytes, next } => seq![bytes] + read_all(blocks, next, false, bytes),
    }
}

#[via_fn]
proof fn read_all_decreases(blocks: Seq<Seq<u8>>, q: RdPos, within: bool, buf: Seq<u8>) {
    lemma_rec_step_progress(blocks, q, within, buf);
}

/// when no entry is pending, what is left in the reassembly buffer does not matter
pub proof fn lemma_read_all_buf_irrelevant(blocks: Seq<Seq<u8>>, q: RdPos, b1: Seq<u8>, b2: Seq<u8>)
    requires pos_ok(blocks, q), blocks_ok(blocks),
    ensures read_all(blocks, q, false, b1) == read_all(blocks, q, false, b2),
{
    lemma_rec_step_buf_irrelevant(blocks, q, b1, b2);
}

/// an intact stream of entries followed by zeros is read back as exactly those entries
pub proof fn lemma_read_all_intact(s: Seq<u8>, p: int, entries: Seq<Seq<u8>>, q: RdPos, within: bool, buf: Seq<u8>)
    requires
        s.len() % 32768 == 0,
        pos_at(blocks_of(s), q, p),
        p + enc_all(p, entries).len() <= s.len(),
        s.subrange(p, p + enc_all(p, entries).len()) == enc_all(p, entries),
        zero_from(s, p + enc_all(p, entries).len()),
    ensures
        read_all(blocks_of(s), q, within, buf) == entries,
    decreases entries.len(),
{
    let blocks = blocks_of(s);
    lemma_blocks_of(s);
    lemma_pos_mod(q.idx, q.cursor, p);
    if entries.len() == 0 {
        lemma_zeros_end(s, p, q);
        assert(rec_step(blocks, q, within, buf) is End);
        assert(read_all(blocks, q, within, buf) =~= entries);
    } else {
        let e = enc(p, entries[0], true);
        let all = enc_all(p, entries);
        let p2 = p + e.len();
        let rest = entries.skip(1);
        assert(all == e + enc_all(p2, rest));
        assert(s.subrange(p, p + e.len()) =~= e) by {
            assert(s.subrange(p, p + all.len()).subrange(0, e.len() as int) =~= s.subrange(p, p + e.len()));
            assert(all.subrange(0, e.len() as int) =~= e);
        }
        lemma_read_written_record(s, p, entries[0], true, q, within, buf);
        let next = rec_step(blocks, q, within, buf)->Record_next;
        let bytes = rec_step(blocks, q, within, buf)->Record_bytes;
        assert(bytes =~= entries[0]);
        assert(s.subrange(p2, p2 + enc_all(p2, rest).len()) =~= enc_all(p2, rest)) by {
            assert(s.subrange(p, p + all.len()).subrange(e.len() as int, all.len() as int) =~= s.subrange(p2, p + all.len()));
            assert(all.subrange(e.len() as int, all.len() as int) =~= enc_all(p2, rest));
        }
        lemma_read_all_intact(s, p2, rest, next, false, bytes);
        assert(seq![entries[0]] + rest =~= entries);
    }
}

/// the frame written at stream offset p is damaged in place, in its checksum and/or payload bytes only: the padding before it, its
/// length and type bytes and its extent are intact, and the damage is detected (stored checksum != checksum of what is there now)
pub open spec fn frame_damaged(s: Seq<u8>, p: int, ty: u8, chunk: Seq<u8>) -> bool {
    let f = frame_enc(p, ty, chunk);
    let pad = pad_len(p);
    let h = p + pad;
    &&& p + f.len() <= s.len()
    &&& s.subrange(p, h) == zeros(pad)
    &&& s.subrange(h + 4, h + 7) == f.subrange(pad + 4, pad + 7)
    &&& spec_u32_from_le_bytes(s.subrange(h, h + 4)) != crc32_spec(s.subrange(h + 7, h + 7 + chunk.len()), ty)
}

/// L-C09-frame: a frame damaged that way is reported as Corruption, and the reader ends exactly behind it, in the same block
pub proof fn lemma_damaged_frame(s: Seq<u8>, p: int, ty: u8, chunk: Seq<u8>, q: RdPos)
    requires
        s.len() % 32768 == 0,
        pos_at(blocks_of(s), q, p),
        valid_type(ty),
        chunk.len() <= max_frame_payload(p),
        frame_damaged(s, p, ty, chunk),
    ensures
        frame_step(blocks_of(s), q) matches FStep::Corrupt { next } && pos_at(blocks_of(s), next, p + frame_enc(p, ty, chunk).len()),
{
    let blocks = blocks_of(s);
    lemma_blocks_of(s);
    lemma_pos_mod(q.idx, q.cursor, p);
    lemma_frame_enc_len(p, ty, chunk);
    lemma_auto_spec_u32_to_from_le_bytes();
    lemma_auto_spec_u16_to_from_le_bytes();
    let f = frame_enc(p, ty, chunk);
    let pad = pad_len(p);
    let crc = crc32_spec(chunk, ty);
    let hdr = hdr_bytes(crc, chunk.len() as u16, ty);
    assert(hdr.len() == 7);
    let skip = q.corrupted || 32768 - q.cursor < 7;
    let q2 = if skip { RdPos { idx: q.idx + 1, cursor: 0, corrupted: false } } else { q };
    let h = p + pad;
    assert(q2.idx * 32768 + q2.cursor == h);
    assert(h + 7 + chunk.len() == p + f.len());
    if skip {
        assert(q.idx + 1 < blocks.len()) by (nonlinear_arith)
            requires (q.idx + 1) * 32768 + 7 <= s.len(), blocks.len() * 32768 == s.len();
    }
    assert(skip_step(blocks, q) == Some(q2));
    let blk = blocks[q2.idx];
    let hb = blk.subrange(q2.cursor, q2.cursor + 7);
    assert(q2.cursor + 7 + chunk.len() <= 32768);
    assert(hb == s.subrange(h, h + 7));
    assert(f.subrange(pad, pad + 7) =~= hdr);
    assert(hb.subrange(4, 7) =~= s.subrange(h + 4, h + 7));
    assert(f.subrange(pad + 4, pad + 7) =~= hdr.subrange(4, 7));
    assert(hb[6] == hb.subrange(4, 7)[2]);
    assert(hdr.subrange(4, 7)[2] == ty);
    assert(hb[6] == ty);
    assert(hb != zeros(7)) by { assert(zeros(7)[6] == 0u8); }
    assert(hb.subrange(4, 6) =~= hb.subrange(4, 7).subrange(0, 2));
    assert(hdr.subrange(4, 7).subrange(0, 2) =~= spec_u16_to_le_bytes(chunk.len() as u16));
    let len = spec_u16_from_le_bytes(hb.subrange(4, 6)) as int;
    assert(len == chunk.len());
    let c = q2.cursor + 7;
    let pl = blk.subrange(c, c + len);
    assert(pl == s.subrange(h + 7, h + 7 + len));
    assert(hb.subrange(0, 4) =~= s.subrange(h, h + 4));
}

/// the remaining (intact) frames of an entry whose start was lost contribute nothing: a reader with no entry pending passes over them
pub proof fn lemma_skip_frames(s: Seq<u8>, p: int, payload: Seq<u8>, q: RdPos, buf: Seq<u8>) -> (q2: RdPos)
    requires
        s.len() % 32768 == 0,
        pos_at(blocks_of(s), q, p),
        p + enc(p, payload, false).len() <= s.len(),
        s.subrange(p, p + enc(p, payload, false).len()) == enc(p, payload, false),
    ensures
        pos_at(blocks_of(s), q2, p + enc(p, payload, false).len()),
        rec_step(blocks_of(s), q, false, buf) == rec_step(blocks_of(s), q2, false, buf),
    decreases payload.len(), (if max_frame_payload(p) == 0 { 1int } else { 0int }),
{
    let blocks = blocks_of(s);
    lemma_blocks_of(s);
    lemma_pos_mod(q.idx, q.cursor, p);
    let avail = max_frame_payload(p);
    let n = if avail < payload.len() { avail } else { payload.len() as int };
    let last = n == payload.len();
    let ty = frame_type_code(false, last);
    let chunk = payload.take(n);
    let f = frame_enc(p, ty, chunk);
    let e = enc(p, payload, false);
    lemma_enc_unfold(p, payload, false);
    let fl = f.len() as int;
    let e2 = if last { Seq::<u8>::empty() } else { enc(p + fl, payload.skip(n), false) };
    assert(e == f + e2) by { if last { assert(f + e2 =~= f); } }
    assert(s.subrange(p, p + fl) =~= f) by {
        assert(s.subrange(p, p + e.len()).subrange(0, fl) =~= s.subrange(p, p + fl));
        assert(e.subrange(0, fl) =~= f);
    }
    lemma_read_written_frame(s, p, ty, chunk, q);
    let next = frame_step(blocks, q)->Frame_next;
    assert(!type_is_first(ty));
    assert(rec_step(blocks, q, false, buf) == rec_step(blocks, next, false, buf));
    if last {
        next
    } else {
        let p2 = p + fl;
        assert(s.subrange(p2, p2 + e2.len()) =~= e2) by {
            assert(s.subrange(p, p + e.len()).subrange(fl, e.len() as int) =~= s.subrange(p2, p + e.len()));
            assert(e.subrange(fl, e.len() as int) =~= e2);
        }
        lemma_skip_frames(s, p2, payload.skip(n), next, buf)
    }
}

/// the entry `payload` written at stream offset p (as `enc(p, payload, first)`) has its k-th frame damaged in place (frame_damaged);
/// all its other frames are intact
pub open spec fn damaged_at(s: Seq<u8>, p: int, payload: Seq<u8>, first: bool, k: nat) -> bool
    decreases k,
{
    let avail = max_frame_payload(p);
    let n = if avail < payload.len() { avail } else { payload.len() as int };
    let last = n == payload.len();
    let ty = frame_type_code(first, last);
    let chunk = payload.take(n);
    let f = frame_enc(p, ty, chunk);
    let p2 = p + f.len();
    let e2 = enc(p2, payload.skip(n), false);
    if k == 0 {
        frame_damaged(s, p, ty, chunk) && (!last ==> p2 + e2.len() <= s.len() && s.subrange(p2, p2 + e2.len()) == e2)
    } else {
        !last && p + f.len() <= s.len() && s.subrange(p, p + f.len()) == f && damaged_at(s, p2, payload.skip(n), false, (k - 1) as nat)
    }
}

/// L-C09-record: an entry with one frame damaged in place is not delivered; the reader reports one Corruption and then stands, with no
/// entry pending, exactly as if it stood behind the whole entry
pub proof fn lemma_damaged_record(s: Seq<u8>, p: int, payload: Seq<u8>, first: bool, q: RdPos, within: bool, buf: Seq<u8>, k: nat) -> (q2: RdPos)
    requires
        s.len() % 32768 == 0,
        pos_at(blocks_of(s), q, p),
        !first ==> within,
        damaged_at(s, p, payload, first, k),
    ensures
        pos_at(blocks_of(s), q2, p + enc(p, payload, first).len()),
        rec_step(blocks_of(s), q, within, buf) matches RStep::Corrupt { next }
            && pos_ok(blocks_of(s), next)
            && rec_step(blocks_of(s), next, false, Seq::empty()) == rec_step(blocks_of(s), q2, false, Seq::empty()),
    decreases k,
{
    let blocks = blocks_of(s);
    lemma_blocks_of(s);
    lemma_pos_mod(q.idx, q.cursor, p);
    let avail = max_frame_payload(p);
    let n = if avail < payload.len() { avail } else { payload.len() as int };
    let last = n == payload.len();
    let ty = frame_type_code(first, last);
    let chunk = payload.take(n);
    let f = frame_enc(p, ty, chunk);
    lemma_enc_unfold(p, payload, first);
    let fl = f.len() as int;
    let p2 = p + fl;
    let b1 = if first { Seq::<u8>::empty() } else { buf };
    assert(valid_type(ty));
    if k == 0 {
        lemma_damaged_frame(s, p, ty, chunk, q);
        let next = frame_step(blocks, q)->Corrupt_next;
        assert(rec_step(blocks, q, within, buf) == RStep::Corrupt { next });
        if last {
            next
        } else {
            lemma_skip_frames(s, p2, payload.skip(n), next, Seq::empty())
        }
    } else {
        lemma_read_written_frame(s, p, ty, chunk, q);
        let next = frame_step(blocks, q)->Frame_next;
        assert(type_is_first(ty) == first);
        assert(!type_is_last(ty));
        assert(rec_step(blocks, q, within, buf) == rec_step(blocks, next, true, b1 + chunk));
        lemma_damaged_record(s, p2, payload.skip(n), false, next, true, b1 + chunk, (k - 1) as nat)
    }
}

/// the stream holds the entries `entries` from offset p on, all intact except entry j, whose k-th frame is damaged in place
pub open spec fn one_damaged(s: Seq<u8>, p: int, entries: Seq<Seq<u8>>, j: nat, k: nat) -> bool
    decreases j,
{
    &&& entries.len() > 0
    &&& {
        let e0 = enc(p, entries[0], true);
        let p2 = p + e0.len();
        let rest = entries.skip(1);
        if j == 0 {
            damaged_at(s, p, entries[0], true, k) && p2 + enc_all(p2, rest).len() <= s.len()
                && s.subrange(p2, p2 + enc_all(p2, rest).len()) == enc_all(p2, rest) && zero_from(s, p2 + enc_all(p2, rest).len())
        } else {
            p2 <= s.len() && s.subrange(p, p2) == e0 && one_damaged(s, p2, rest, (j - 1) as nat, k)
        }
    }
}

/// L-C09: in-place damage confined to the checksum / payload bytes of ONE frame -- frame k of entry j, at any alignment -- costs exactly
/// that entry: the reading rule delivers every other entry, whole and in order (one Corruption is reported in between).
pub proof fn lemma_one_damaged_entry(s: Seq<u8>, p: int, entries: Seq<Seq<u8>>, j: nat, k: nat, q: RdPos, within: bool, buf: Seq<u8>)
    requires
        s.len() % 32768 == 0,
        pos_at(blocks_of(s), q, p),
        one_damaged(s, p, entries, j, k),
    ensures
        j < entries.len(),
        read_all(blocks_of(s), q, within, buf) == entries.remove(j as int),
    decreases j,
{
    let blocks = blocks_of(s);
    lemma_blocks_of(s);
    lemma_pos_mod(q.idx, q.cursor, p);
    let e0 = enc(p, entries[0], true);
    let p2 = p + e0.len();
    let rest = entries.skip(1);
    if j == 0 {
        let q2 = lemma_damaged_record(s, p, entries[0], true, q, within, buf, k);
        let next = rec_step(blocks, q, within, buf)->Corrupt_next;
        // behind the damaged entry the stream is intact
        lemma_read_all_intact(s, p2, rest, q2, false, Seq::empty());
        assert(read_all(blocks, next, false, Seq::empty()) == read_all(blocks, q2, false, Seq::empty()));
        assert(entries.remove(0) =~= rest);
    } else {
        lemma_read_written_record(s, p, entries[0], true, q, within, buf);
        let next = rec_step(blocks, q, within, buf)->Record_next;
        let bytes = rec_step(blocks, q, within, buf)->Record_bytes;
        assert(bytes =~= entries[0]);
        lemma_one_damaged_entry(s, p2, rest, (j - 1) as nat, k, next, false, bytes);
        assert(seq![entries[0]] + rest.remove(j - 1) =~= entries.remove(j as int));
    }
}

/// the replay rule applied to a sequence of entry byte strings: an entry that does not decode is skipped, None = a rejected entry
pub open spec fn replay_bytes(es: Seq<Seq<u8>>, v: LogView) -> Option<LogView>
    decreases es.len(),
{
    if es.len() == 0 { Some(v) } else {
        match parse_entry(es[0]) {
            None => replay_bytes(es.skip(1), v),
            Some(e) => match replay_entry(v, e) { None => None, Some(v1) => replay_bytes(es.skip(1), v1) },
        }
    }
}

/// what `open` computes (replay_log) is the replay rule folded over exactly the entries the reading rule delivers (read_all)
pub proof fn lemma_replay_log_is_fold(blocks: Seq<Seq<u8>>, q: RdPos, within: bool, buf: Seq<u8>, v: LogView)
    requires pos_ok(blocks, q), blocks_ok(blocks),
    ensures replay_log(blocks, q, within, buf, v) == replay_bytes(read_all(blocks, q, within, buf), v),
    decreases blocks.len() - q.idx, (if q.corrupted { 0int } else { 1int }), BLOCK() - q.cursor,
{
    lemma_rec_step_progress(blocks, q, within, buf);
    match rec_step(blocks, q, within, buf) {
        RStep::End { .. } => {},
        RStep::Corrupt { next } => { lemma_replay_log_is_fold(blocks, next, false, Seq::empty(), v); },
        RStep::Record { bytes, next } => {
            let ra = read_all(blocks, next, false, bytes);
            assert((seq![bytes] + ra).skip(1) =~= ra);
            match parse_entry(bytes) {
                None => { lemma_replay_log_is_fold(blocks, next, false, bytes, v); },
                Some(e) => match replay_entry(v, e) {
                    None => {},
                    Some(v1) => { lemma_replay_log_is_fold(blocks, next, false, bytes, v1); },
                },
            }
        },
    }
}

/// C09 at the logical level: with one frame of entry j damaged in place, recovery computes the replay of all the OTHER entries
pub proof fn lemma_one_damaged_entry_replay(s: Seq<u8>, p: int, entries: Seq<Seq<u8>>, j: nat, k: nat, q: RdPos, within: bool, buf: Seq<u8>, v: LogView)
    requires
        s.len() % 32768 == 0,
        pos_at(blocks_of(s), q, p),
        one_damaged(s, p, entries, j, k),
    ensures
        replay_log(blocks_of(s), q, within, buf, v) == replay_bytes(entries.remove(j as int), v),
{
    lemma_blocks_of(s);
    lemma_one_damaged_entry(s, p, entries, j, k, q, within, buf);
    lemma_replay_log_is_fold(blocks_of(s), q, within, buf, v);
}

/// k entries delivered and then nothing more: that is all the reading rule ever delivers
pub proof fn lemma_read_all_of_prefix(blocks: Seq<Seq<u8>>, q: RdPos, within: bool, buf: Seq<u8>, k: nat)
    requires
        pos_ok(blocks, q), blocks_ok(blocks),
        run_k(blocks, q, within, buf, k) matches Some((got, last, w, b)) && ends_soon(blocks, last, w, b),
    ensures
        read_all(blocks, q, within, buf) == run_k(blocks, q, within, buf, k)->Some_0.0,
    decreases k,
{
    lemma_rec_step_progress(blocks, q, within, buf);
    if k == 0 {
        match rec_step(blocks, q, within, buf) {
            RStep::Corrupt { next } => {
                assert(rec_step(blocks, next, false, Seq::empty()) is End);
                assert(read_all(blocks, next, false, Seq::empty()) =~= Seq::<Seq<u8>>::empty());
            },
            _ => {},
        }
        assert(read_all(blocks, q, within, buf) =~= Seq::<Seq<u8>>::empty());
    } else {
        let next = rec_step(blocks, q, within, buf)->Record_next;
        let bytes = rec_step(blocks, q, within, buf)->Record_bytes;
        lemma_read_all_of_prefix(blocks, next, false, bytes, (k - 1) as nat);
    }
}

/// C12 at the logical level: with the tail of the WAL cut at any byte, recovery computes the replay of a PREFIX of the entries written
pub proof fn lemma_torn_tail_replay(s: Seq<u8>, p: int, entries: Seq<Seq<u8>>, cut: int, q: RdPos, within: bool, buf: Seq<u8>, v: LogView)
    requires
        s.len() % 32768 == 0,
        pos_at(blocks_of(s), q, p),
        0 <= cut <= enc_all(p, entries).len(),
        p + enc_all(p, entries).len() <= s.len(),
        s.subrange(p, p + enc_all(p, entries).len()) == torn(enc_all(p, entries), cut),
        zero_from(s, p + cut),
        crc_sound(),
    ensures
        exists|k: int| 0 <= k <= entries.len() && replay_log(blocks_of(s), q, within, buf, v) == #[trigger] replay_bytes(entries.take(k), v),
{
    let blocks = blocks_of(s);
    lemma_blocks_of(s);
    lemma_torn_tail(s, p, entries, cut, q, within, buf);
    let k = choose|k: nat| #[trigger] delivers_prefix(blocks, q, within, buf, entries, k);
    lemma_read_all_of_prefix(blocks, q, within, buf, k);
    lemma_replay_log_is_fold(blocks, q, within, buf, v);
    assert(replay_log(blocks, q, within, buf, v) == replay_bytes(entries.take(k as int), v));
}

} // verus!
