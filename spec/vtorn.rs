// L-C12 (torn tail): a WAL whose tail was cut at an ARBITRARY byte (everything behind the cut reads as zeros: the files are
// pre-filled with zeros and written sequentially) is read back as a PREFIX of the entries that were written -- never an entry with
// a hole or a missing tail, never anything behind the cut.  This is the spec-level half of C12 / C02's "one call = one entry,
// visible only when its last frame is intact": it composes the writer rule `enc` with the reader rule `rec_step` (both of which the
// real code is verified against), for every alignment, every entry size and every cut point.
// Hypothesis (the property's own "up to a CRC-32 collision"): the checksum tells a payload from its zero-tailed truncations.
// No repo code in this file.
use vstd::prelude::*;
use vstd::bytes::*;
use crate::vspec::*;
use crate::vroundtrip::*;
verus! {

/// everything from stream offset p on is zero
pub open spec fn zero_from(s: Seq<u8>, p: int) -> bool {
    forall|i: int| p <= i < s.len() ==> s[i] == 0u8
}

/// the checksum distinguishes `payload` from every strictly shorter prefix of it padded with zeros
pub open spec fn crc_detects(ty: u8, payload: Seq<u8>) -> bool {
    forall|t: int| 0 <= t < payload.len() && payload.take(t) + zeros(payload.len() - t) != payload
        ==> crc32_spec(#[trigger] (payload.take(t) + zeros(payload.len() - t)), ty) != crc32_spec(payload, ty)
}
/// Hypothesis of the lemmas below, for frame-sized payloads only.  It is satisfiable (e.g. by the "checksum" that returns the index of the
/// last non-zero byte: a zero-tailed truncation that differs from the payload has a strictly smaller one), so the lemmas are not vacuous;
/// without the size bound it would be contradictory (a chain of more than 2^32 pairwise different truncations cannot get different u32 values).
pub open spec fn crc_sound() -> bool {
    forall|ty: u8, payload: Seq<u8>| payload.len() <= 32761 ==> #[trigger] crc_detects(ty, payload)
}

/// from reader state (q, within) nothing more is delivered: the reader reports the end of the log, possibly after one Corruption
pub open spec fn ends_soon(blocks: Seq<Seq<u8>>, q: RdPos, within: bool, buf: Seq<u8>) -> bool {
    match rec_step(blocks, q, within, buf) {
        RStep::Record { .. } => false,
        RStep::End { .. } => true,
        RStep::Corrupt { next } => rec_step(blocks, next, false, Seq::empty()) is End,
    }
}

/// a reader standing anywhere in an all-zero tail reports the end of the log
pub proof fn lemma_zeros_end(s: Seq<u8>, p: int, q: RdPos)
    requires
        s.len() % 32768 == 0,
        0 <= q.idx < blocks_of(s).len(),
        0 <= q.cursor <= 32768,
        q.idx * 32768 + q.cursor == p,
        zero_from(s, if q.corrupted { (q.idx + 1) * 32768 } else { p }),
    ensures
        frame_step(blocks_of(s), q) is End,
{
    let blocks = blocks_of(s);
    lemma_blocks_of(s);
    match skip_step(blocks, q) {
        None => {},
        Some(q2) => {
            let blk = blocks[q2.idx];
            let hb = blk.subrange(q2.cursor, q2.cursor + 7);
            assert(q2.cursor + 7 <= 32768);
            assert(hb == s.subrange(q2.idx * 32768 + q2.cursor, q2.idx * 32768 + q2.cursor + 7));
            assert(hb =~= zeros(7)) by {
                assert forall|i: int| 0 <= i < 7 implies hb[i] == 0u8 by {
                    assert(hb[i] == s[q2.idx * 32768 + q2.cursor + i]);
                    assert((q2.idx + 1) * 32768 <= s.len()) by (nonlinear_arith)
                        requires q2.idx + 1 <= blocks.len(), blocks.len() * 32768 == s.len();
                }
            }
        }
    }
}

/// what the stream holds where a frame `f` was cut after `cut` bytes
pub open spec fn torn(f: Seq<u8>, cut: int) -> Seq<u8> { f.take(cut) + zeros(f.len() - cut) }

/// L-C12-frame: a frame cut at any byte (and differing from the intact frame) is never delivered: the reader reports the end of the
/// log at once, or one Corruption and then the end of the log.
pub proof fn lemma_torn_frame(s: Seq<u8>, p: int, ty: u8, payload: Seq<u8>, q: RdPos, cut: int)
    requires
        s.len() % 32768 == 0,
        pos_at(blocks_of(s), q, p),
        valid_type(ty),
        payload.len() <= max_frame_payload(p),
        p + frame_enc(p, ty, payload).len() <= s.len(),
        0 <= cut < frame_enc(p, ty, payload).len(),
        s.subrange(p, p + frame_enc(p, ty, payload).len()) == torn(frame_enc(p, ty, payload), cut),
        s.subrange(p, p + frame_enc(p, ty, payload).len()) != frame_enc(p, ty, payload),
        zero_from(s, p + cut),
        crc_detects(ty, payload),
    ensures
        match frame_step(blocks_of(s), q) {
            FStep::Frame { .. } => false,
            FStep::End { .. } => true,
            FStep::Corrupt { next } => pos_ok(blocks_of(s), next) && frame_step(blocks_of(s), next) is End,
        },
{
    let blocks = blocks_of(s);
    lemma_blocks_of(s);
    lemma_pos_mod(q.idx, q.cursor, p);
    lemma_frame_enc_len(p, ty, payload);
    lemma_auto_spec_u32_to_from_le_bytes();
    lemma_auto_spec_u16_to_from_le_bytes();
    let f = frame_enc(p, ty, payload);
    let g = torn(f, cut);
    let pad = pad_len(p);
    let crc = crc32_spec(payload, ty);
    let hdr = hdr_bytes(crc, payload.len() as u16, ty);
    assert(hdr.len() == 7);
    let skip = q.corrupted || 32768 - q.cursor < 7;
    let q2 = if skip { RdPos { idx: q.idx + 1, cursor: 0, corrupted: false } } else { q };
    let h = p + pad;
    assert(q2.idx * 32768 + q2.cursor == h);
    assert(h + 7 + payload.len() == p + f.len());
    if skip {
        assert(q.idx + 1 < blocks.len()) by (nonlinear_arith)
            requires (q.idx + 1) * 32768 + 7 <= s.len(), blocks.len() * 32768 == s.len();
    }
    assert(skip_step(blocks, q) == Some(q2));
    let blk = blocks[q2.idx];
    let hb = blk.subrange(q2.cursor, q2.cursor + 7);
    assert(q2.cursor + 7 + payload.len() <= 32768);
    assert(hb == s.subrange(h, h + 7));
    assert(s.subrange(h, h + 7) =~= g.subrange(pad, pad + 7)) by {
        assert(s.subrange(p, p + f.len()).subrange(pad, pad + 7) =~= s.subrange(h, h + 7));
    }
    assert(f.subrange(pad, pad + 7) =~= hdr);
    assert((q2.idx + 1) * 32768 <= s.len()) by (nonlinear_arith)
        requires q2.idx + 1 <= blocks.len(), blocks.len() * 32768 == s.len();
    if cut <= pad + 6 {
        // the type byte lies behind the cut: it reads as 0
        assert(hb[6] == g[pad + 6]);
        assert(g[pad + 6] == 0u8);
        if hb == zeros(7) {
        } else {
            assert(!valid_type(hb[6]));
            let next = RdPos { corrupted: true, ..q2 };
            assert(frame_step(blocks, q) == FStep::Corrupt { next });
            assert(zero_from(s, (next.idx + 1) * 32768));
            lemma_zeros_end(s, h, next);
        }
    } else {
        // the header is intact, the payload is cut
        assert(hb =~= hdr) by {
            assert forall|i: int| 0 <= i < 7 implies hb[i] == hdr[i] by {
                assert(hb[i] == g[pad + i]);
                assert(g[pad + i] == f[pad + i]);
            }
        }
        assert(hb[6] == ty);
        assert(hb != zeros(7)) by { assert(zeros(7)[6] == 0u8); }
        assert(hb.subrange(4, 6) =~= spec_u16_to_le_bytes(payload.len() as u16));
        assert(hb.subrange(0, 4) =~= spec_u32_to_le_bytes(crc));
        let len = spec_u16_from_le_bytes(hb.subrange(4, 6)) as int;
        assert(len == payload.len());
        let c = q2.cursor + 7;
        let pl = blk.subrange(c, c + len);
        assert(pl == s.subrange(h + 7, h + 7 + len));
        let t = cut - pad - 7;
        let tp = payload.take(t) + zeros(payload.len() - t);
        assert(pl =~= tp) by {
            assert(s.subrange(p, p + f.len()).subrange(pad + 7, pad + 7 + len) =~= s.subrange(h + 7, h + 7 + len));
            assert forall|i: int| 0 <= i < len implies pl[i] == tp[i] by {
                assert(pl[i] == g[pad + 7 + i]);
                if i < t { assert(g[pad + 7 + i] == f[pad + 7 + i]); assert(f[pad + 7 + i] == payload[i]); }
            }
        }
        assert(tp != payload) by {
            if tp == payload {
                assert(g =~= f) by {
                    assert forall|i: int| 0 <= i < f.len() implies g[i] == f[i] by {
                        if i >= cut { assert(g[i] == 0u8); assert(f[i] == payload[i - pad - 7]); assert(tp[i - pad - 7] == 0u8); }
                    }
                }
            }
        }
        assert(crc32_spec(tp, ty) != crc);
        let next = RdPos { idx: q2.idx, cursor: c + len, corrupted: false };
        assert(frame_step(blocks, q) == FStep::Corrupt { next });
        assert(zero_from(s, p + f.len()));
        lemma_zeros_end(s, p + f.len(), next);
    }
}

/// a cut sequence x = torn(f + g, cut), seen as a cut first part followed by a cut second part
pub proof fn lemma_torn_concat(f: Seq<u8>, g: Seq<u8>, cut: int, x: Seq<u8>)
    requires 0 <= cut <= f.len() + g.len(), x == torn(f + g, cut),
    ensures
        x.len() == f.len() + g.len(),
        x.subrange(0, f.len() as int) == torn(f, if cut < f.len() { cut } else { f.len() as int }),
        x.subrange(f.len() as int, x.len() as int) == torn(g, if cut < f.len() { 0 } else { cut - f.len() }),
        x.subrange(0, f.len() as int) == f && x.subrange(f.len() as int, x.len() as int) == g ==> x == f + g,
        cut >= f.len() ==> x.subrange(0, f.len() as int) == f,
        cut >= f.len() + g.len() ==> x == f + g,
{
    let fl = f.len() as int;
    assert(x.subrange(0, fl) =~= torn(f, if cut < fl { cut } else { fl }));
    assert(x.subrange(fl, x.len() as int) =~= torn(g, if cut < fl { 0 } else { cut - fl }));
    if x.subrange(0, fl) == f && x.subrange(fl, x.len() as int) == g {
        assert(x =~= x.subrange(0, fl) + x.subrange(fl, x.len() as int));
    }
    if cut >= fl { assert(torn(f, fl) =~= f); }
    if cut >= fl + g.len() { assert(x =~= f + g); }
}

/// the first frame of an entry and what follows it
pub proof fn lemma_enc_unfold(p: int, payload: Seq<u8>, first: bool)
    requires p >= 0,
    ensures ({
        let avail = max_frame_payload(p);
        let n = if avail < payload.len() { avail } else { payload.len() as int };
        let last = n == payload.len();
        let f = frame_enc(p, frame_type_code(first, last), payload.take(n));
        &&& 0 <= n <= payload.len()
        &&& payload.take(n).len() <= max_frame_payload(p)
        &&& f.len() == pad_len(p) + 7 + n
        &&& (last ==> enc(p, payload, first) == f)
        &&& (!last ==> enc(p, payload, first) == f + enc(p + f.len(), payload.skip(n), false) && payload.skip(n).len() == payload.len() - n
                && (payload.skip(n).len() < payload.len() || max_frame_payload(p + f.len()) > 0))
    }),
{
    let avail = max_frame_payload(p);
    let n = if avail < payload.len() { avail } else { payload.len() as int };
    let last = n == payload.len();
    lemma_frame_enc_len(p, frame_type_code(first, last), payload.take(n));
    lemma_full_frame_ends_block(p);
}

/// L-C12-record: an entry cut at any byte (and differing from the intact entry) is never delivered
pub proof fn lemma_torn_record(s: Seq<u8>, p: int, payload: Seq<u8>, first: bool, q: RdPos, within: bool, buf0: Seq<u8>, cut: int)
    requires
        s.len() % 32768 == 0,
        pos_at(blocks_of(s), q, p),
        !first ==> within,
        p + enc(p, payload, first).len() <= s.len(),
        0 <= cut < enc(p, payload, first).len(),
        s.subrange(p, p + enc(p, payload, first).len()) == torn(enc(p, payload, first), cut),
        s.subrange(p, p + enc(p, payload, first).len()) != enc(p, payload, first),
        zero_from(s, p + cut),
        crc_sound(),
    ensures
        ends_soon(blocks_of(s), q, within, buf0),
    decreases payload.len(), (if max_frame_payload(p) == 0 { 1int } else { 0int }),
{
    let blocks = blocks_of(s);
    lemma_pos_mod(q.idx, q.cursor, p);
    let avail = max_frame_payload(p);
    let n = if avail < payload.len() { avail } else { payload.len() as int };
    let last = n == payload.len();
    let ty = frame_type_code(first, last);
    let chunk = payload.take(n);
    let f = frame_enc(p, ty, chunk);
    let e = enc(p, payload, first);
    lemma_enc_unfold(p, payload, first);
    let b1 = if first { Seq::<u8>::empty() } else { buf0 };
    let fl = f.len() as int;
    let x = s.subrange(p, p + e.len());
    let e2 = if last { Seq::<u8>::empty() } else { enc(p + fl, payload.skip(n), false) };
    assert(e == f + e2) by { if last { assert(f + e2 =~= f); } }
    lemma_torn_concat(f, e2, cut, x);
    assert(s.subrange(p, p + fl) =~= x.subrange(0, fl));
    assert(s.subrange(p + fl, p + fl + e2.len()) =~= x.subrange(fl, x.len() as int));
    assert(chunk.len() <= 32761);
    assert(crc_detects(ty, chunk));
    assert(valid_type(ty));
    if s.subrange(p, p + fl) == f {
        // the first frame is intact: it is read, and the cut lies in what follows
        lemma_read_written_frame(s, p, ty, chunk, q);
        let next = frame_step(blocks, q)->Frame_next;
        assert(type_is_first(ty) == first);
        assert(type_is_last(ty) == last);
        if last {
            assert(x == e);
        } else {
            let p2 = p + fl;
            let rest = payload.skip(n);
            let cut2 = if cut < fl { 0 } else { cut - fl };
            assert(s.subrange(p2, p2 + e2.len()) == torn(e2, cut2));
            assert(s.subrange(p2, p2 + e2.len()) != e2);
            assert(cut2 < e2.len()) by { if cut2 >= e2.len() { assert(torn(e2, cut2) =~= e2); } }
            lemma_torn_record(s, p2, rest, false, next, true, b1 + chunk, cut2);
            assert(rec_step(blocks, q, within, buf0) == rec_step(blocks, next, true, b1 + chunk));
        }
    } else {
        // the cut lies inside the first frame
        assert(cut < fl);
        lemma_torn_frame(s, p, ty, chunk, q, cut);
        match frame_step(blocks, q) {
            FStep::Corrupt { next } => {
                assert(rec_step(blocks, q, within, buf0) == RStep::Corrupt { next });
                assert(rec_step(blocks, next, false, Seq::empty()) is End);
            },
            _ => {},
        }
    }
}

/// reading entries one after the other, like `dec_k`, also returning the reader state that is reached
pub open spec fn run_k(blocks: Seq<Seq<u8>>, q: RdPos, within: bool, buf: Seq<u8>, k: nat) -> Option<(Seq<Seq<u8>>, RdPos, bool, Seq<u8>)>
    decreases k,
{
    if k == 0 { Some((Seq::<Seq<u8>>::empty(), q, within, buf)) } else {
        match rec_step(blocks, q, within, buf) {
            RStep::Record { bytes, next } => match run_k(blocks, next, false, bytes, (k - 1) as nat) {
                Some((rest, last, w, b)) => Some((seq![bytes] + rest, last, w, b)),
                None => None,
            },
            _ => None,
        }
    }
}

/// what recovery delivers from (q, within, buf): exactly the first k of `entries`, and then nothing more
pub open spec fn delivers_prefix(blocks: Seq<Seq<u8>>, q: RdPos, within: bool, buf: Seq<u8>, entries: Seq<Seq<u8>>, k: nat) -> bool {
    k <= entries.len() && (run_k(blocks, q, within, buf, k) matches Some((got, last, w, b)) && got == entries.take(k as int) && ends_soon(blocks, last, w, b))
}

/// L-C12 (torn tail): the entries `entries` were written from stream offset p; the stream was cut `cut` bytes behind p, at ANY byte, and reads
/// as zeros from there on.  Recovery then delivers exactly a PREFIX of the entries, each one whole, and reports the end of the log
/// (after at most one Corruption): no entry with a hole or a missing tail, nothing behind the cut.
pub proof fn lemma_torn_tail(s: Seq<u8>, p: int, entries: Seq<Seq<u8>>, cut: int, q: RdPos, within: bool, buf: Seq<u8>)
    requires
        s.len() % 32768 == 0,
        pos_at(blocks_of(s), q, p),
        0 <= cut <= enc_all(p, entries).len(),
        p + enc_all(p, entries).len() <= s.len(),
        s.subrange(p, p + enc_all(p, entries).len()) == torn(enc_all(p, entries), cut),
        zero_from(s, p + cut),
        crc_sound(),
    ensures
        exists|k: nat| #[trigger] delivers_prefix(blocks_of(s), q, within, buf, entries, k),
    decreases entries.len(),
{
    let blocks = blocks_of(s);
    lemma_blocks_of(s);
    lemma_pos_mod(q.idx, q.cursor, p);
    if entries.len() == 0 {
        assert(cut == 0);
        lemma_zeros_end(s, p, q);
        assert(rec_step(blocks, q, within, buf) is End);
        assert(entries.take(0) =~= Seq::<Seq<u8>>::empty());
        assert(delivers_prefix(blocks, q, within, buf, entries, 0));
    } else {
        let e0 = enc(p, entries[0], true);
        let all = enc_all(p, entries);
        let p2 = p + e0.len();
        let rest = entries.skip(1);
        let all2 = enc_all(p2, rest);
        assert(all == e0 + all2);
        let x = s.subrange(p, p + all.len());
        lemma_torn_concat(e0, all2, cut, x);
        assert(s.subrange(p, p + e0.len()) =~= x.subrange(0, e0.len() as int));
        assert(s.subrange(p2, p2 + all2.len()) =~= x.subrange(e0.len() as int, x.len() as int));
        if s.subrange(p, p + e0.len()) == e0 {
            // the first entry is whole: it is delivered, and the cut lies in what follows
            lemma_read_written_record(s, p, entries[0], true, q, within, buf);
            let next = rec_step(blocks, q, within, buf)->Record_next;
            let bytes = rec_step(blocks, q, within, buf)->Record_bytes;
            assert(bytes =~= entries[0]);
            let cut2 = if cut < e0.len() { 0 } else { cut - e0.len() };
            lemma_torn_tail(s, p2, rest, cut2, next, false, bytes);
            let k2 = choose|k: nat| #[trigger] delivers_prefix(blocks, next, false, bytes, rest, k);
            let k = (k2 + 1) as nat;
            let r2 = run_k(blocks, next, false, bytes, k2);
            assert(run_k(blocks, q, within, buf, k) == Some((seq![bytes] + r2->Some_0.0, r2->Some_0.1, r2->Some_0.2, r2->Some_0.3)));
            assert(seq![entries[0]] + rest.take(k2 as int) =~= entries.take(k as int));
            assert(delivers_prefix(blocks, q, within, buf, entries, k));
        } else {
            // the cut lies inside the first entry: nothing is delivered
            assert(cut < e0.len());
            lemma_torn_record(s, p, entries[0], true, q, within, buf, cut);
            assert(entries.take(0) =~= Seq::<Seq<u8>>::empty());
            assert(delivers_prefix(blocks, q, within, buf, entries, 0));
        }
    }
}

} // verus!
