// L-C07: what the record writer emits is read back identically by the record reader, at every
// stream position (block alignment) and for every entry length.  Pure spec-level lemmas over
// `enc` (what RecordWriter::write_record is proved to emit, O-C15-record) and `rec_step` (what
// RecordReader::go_next is proved to compute, O-C12-deliver).  No repo code here.
use vstd::prelude::*;
use vstd::bytes::*;
use crate::vspec::*;

verus! {

/// the stream cut into 32 KiB blocks
pub open spec fn blocks_of(s: Seq<u8>) -> Seq<Seq<u8>> {
    Seq::new((s.len() / 32768) as nat, |i: int| s.subrange(i * 32768, (i + 1) * 32768))
}

/// reader position `q` stands at stream offset `p` (a block end may be represented as (idx, 32768) or (idx+1, 0))
pub open spec fn pos_at(blocks: Seq<Seq<u8>>, q: RdPos, p: int) -> bool {
    &&& !q.corrupted
    &&& 0 <= q.idx < blocks.len()
    &&& 0 <= q.cursor <= 32768
    &&& q.idx * 32768 + q.cursor == p
}

pub proof fn lemma_blocks_of(s: Seq<u8>)
    requires s.len() % 32768 == 0,
    ensures
        blocks_ok(blocks_of(s)),
        blocks_of(s).len() * 32768 == s.len(),
        forall|i: int, a: int, b: int| 0 <= i < blocks_of(s).len() && 0 <= a <= b <= 32768 ==>
            #[trigger] blocks_of(s)[i].subrange(a, b) == s.subrange(i * 32768 + a, i * 32768 + b),
{
    let n = s.len() as int;
    assert(n == 32768 * (n / 32768)) by (nonlinear_arith) requires n % 32768 == 0, n >= 0;
    assert forall|i: int, a: int, b: int| 0 <= i < blocks_of(s).len() && 0 <= a <= b <= 32768 implies
        #[trigger] blocks_of(s)[i].subrange(a, b) == s.subrange(i * 32768 + a, i * 32768 + b) by {
        assert((i + 1) * 32768 <= n) by (nonlinear_arith) requires i + 1 <= n / 32768, n == 32768 * (n / 32768);
        assert(blocks_of(s)[i].subrange(a, b) =~= s.subrange(i * 32768 + a, i * 32768 + b));
    }
    assert forall|i: int| 0 <= i < blocks_of(s).len() implies (#[trigger] blocks_of(s)[i]).len() == 32768 by {
        assert((i + 1) * 32768 <= n) by (nonlinear_arith) requires i + 1 <= n / 32768, n == 32768 * (n / 32768);
    }
}

/// stream offset modulo the block size, in terms of the reader position
pub proof fn lemma_pos_mod(idx: int, cursor: int, p: int)
    requires 0 <= idx, 0 <= cursor <= 32768, idx * 32768 + cursor == p,
    ensures p % 32768 == (if cursor == 32768 { 0 } else { cursor }), p >= 0,
{
    if cursor == 32768 {
        assert(p % 32768 == 0) by (nonlinear_arith) requires p == (idx + 1) * 32768, idx >= 0;
    } else {
        assert(p % 32768 == cursor) by (nonlinear_arith) requires p == idx * 32768 + cursor, 0 <= cursor < 32768, idx >= 0;
    }
}

/// L-C07-frame: a frame written at stream offset p is delivered by the frame-reading rule from any reader
/// position standing at p, and the reader ends exactly behind it.
pub proof fn lemma_read_written_frame(s: Seq<u8>, p: int, ty: u8, payload: Seq<u8>, q: RdPos)
    requires
        s.len() % 32768 == 0,
        pos_at(blocks_of(s), q, p),
        valid_type(ty),
        payload.len() <= max_frame_payload(p),
        p + frame_enc(p, ty, payload).len() <= s.len(),
        s.subrange(p, p + frame_enc(p, ty, payload).len()) == frame_enc(p, ty, payload),
    ensures
        frame_step(blocks_of(s), q) matches FStep::Frame { ty: t2, payload: p2, next }
            && t2 == ty && p2 == payload && pos_at(blocks_of(s), next, p + frame_enc(p, ty, payload).len()),
{
    let blocks = blocks_of(s);
    lemma_blocks_of(s);
    lemma_pos_mod(q.idx, q.cursor, p);
    lemma_frame_enc_len(p, ty, payload);
    lemma_auto_spec_u32_to_from_le_bytes();
    lemma_auto_spec_u16_to_from_le_bytes();
    let f = frame_enc(p, ty, payload);
    let pad = pad_len(p);
    let crc = crc32_spec(payload, ty);
    let hdr = hdr_bytes(crc, payload.len() as u16, ty);
    assert(hdr.len() == 7);
    // where the header really starts: q2 = the position after the reader's skip
    let skip = q.corrupted || 32768 - q.cursor < 7;
    let q2 = if skip { RdPos { idx: q.idx + 1, cursor: 0, corrupted: false } } else { q };
    let h = p + pad;   // stream offset of the header
    assert(q2.idx * 32768 + q2.cursor == h);
    assert(h + 7 + payload.len() == p + f.len());
    if skip {
        // the header lies in the next block, which exists because the frame fits in the stream
        assert(q.idx + 1 < blocks.len()) by (nonlinear_arith)
            requires (q.idx + 1) * 32768 + 7 <= s.len(), blocks.len() * 32768 == s.len();
    }
    assert(skip_step(blocks, q) == Some(q2));
    let blk = blocks[q2.idx];
    let hb = blk.subrange(q2.cursor, q2.cursor + 7);
    assert(q2.cursor + 7 + payload.len() <= 32768);
    assert(hb == s.subrange(h, h + 7));
    assert(s.subrange(h, h + 7) =~= f.subrange(pad, pad + 7)) by {
        assert(s.subrange(p, p + f.len()).subrange(pad, pad + 7) =~= s.subrange(h, h + 7));
    }
    assert(f.subrange(pad, pad + 7) =~= hdr);
    assert(hb == hdr);
    assert(hb[6] == ty);
    assert(hb != zeros(7)) by { assert(zeros(7)[6] == 0u8); }
    assert(hb.subrange(4, 6) =~= spec_u16_to_le_bytes(payload.len() as u16));
    assert(hb.subrange(0, 4) =~= spec_u32_to_le_bytes(crc));
    let len = spec_u16_from_le_bytes(hb.subrange(4, 6)) as int;
    assert(len == payload.len());
    let c = q2.cursor + 7;
    let pl = blk.subrange(c, c + len);
    assert(pl == s.subrange(h + 7, h + 7 + len));
    assert(s.subrange(h + 7, h + 7 + len) =~= payload) by {
        assert(s.subrange(p, p + f.len()).subrange(pad + 7, pad + 7 + len) =~= s.subrange(h + 7, h + 7 + len));
        assert(f.subrange(pad + 7, pad + 7 + len) =~= payload);
    }
}

/// L-C07-record: an entry written at stream offset p (as First..Last or Full frames, with whatever padding
/// its alignment needs) is reassembled to exactly its bytes; the reader ends exactly behind it.
pub proof fn lemma_read_written_record(s: Seq<u8>, p: int, payload: Seq<u8>, first: bool, q: RdPos, within: bool, buf0: Seq<u8>)
    requires
        s.len() % 32768 == 0,
        pos_at(blocks_of(s), q, p),
        !first ==> within,
        p + enc(p, payload, first).len() <= s.len(),
        s.subrange(p, p + enc(p, payload, first).len()) == enc(p, payload, first),
    ensures
        rec_step(blocks_of(s), q, within, buf0) matches RStep::Record { bytes, next }
            && bytes == (if first { Seq::<u8>::empty() } else { buf0 }) + payload
            && pos_at(blocks_of(s), next, p + enc(p, payload, first).len()),
    decreases payload.len(), (if max_frame_payload(p) == 0 { 1int } else { 0int }),
{
    let blocks = blocks_of(s);
    lemma_blocks_of(s);
    lemma_pos_mod(q.idx, q.cursor, p);
    let avail = max_frame_payload(p);
    let n = if avail < payload.len() { avail } else { payload.len() as int };
    let last = n == payload.len();
    let ty = frame_type_code(first, last);
    let chunk = payload.take(n);
    let f = frame_enc(p, ty, chunk);
    let e = enc(p, payload, first);
    lemma_frame_enc_len(p, ty, chunk);
    lemma_full_frame_ends_block(p);
    let b1 = if first { Seq::<u8>::empty() } else { buf0 };
    assert(f.len() <= e.len());
    assert(s.subrange(p, p + f.len()) =~= f) by {
        assert(s.subrange(p, p + e.len()).subrange(0, f.len() as int) =~= s.subrange(p, p + f.len()));
        assert(e.subrange(0, f.len() as int) =~= f);
    }
    lemma_read_written_frame(s, p, ty, chunk, q);
    let next = frame_step(blocks, q)->Frame_next;
    assert(type_is_first(ty) == first);
    assert(type_is_last(ty) == last);
    if last {
        assert(chunk =~= payload);
    } else {
        let p2 = p + f.len();
        let rest = payload.skip(n);
        assert(rest.len() == payload.len() - n);
        assert(e == f + enc(p2, rest, false));
        assert(s.subrange(p2, p2 + enc(p2, rest, false).len()) =~= enc(p2, rest, false)) by {
            assert(s.subrange(p, p + e.len()).subrange(f.len() as int, e.len() as int) =~= s.subrange(p2, p + e.len()));
            assert(e.subrange(f.len() as int, e.len() as int) =~= enc(p2, rest, false));
        }
        lemma_read_written_record(s, p2, rest, false, next, true, b1 + chunk);
        assert((b1 + chunk) + rest =~= b1 + payload);
    }
}

/// the WAL bytes of a sequence of entries written one after the other from stream offset p
pub open spec fn enc_all(p: int, entries: Seq<Seq<u8>>) -> Seq<u8>
    decreases entries.len(),
{
    if entries.len() == 0 || p < 0 { Seq::<u8>::empty() } else {
        let e = enc(p, entries[0], true);
        e + enc_all(p + e.len(), entries.skip(1))
    }
}

/// reading entries one after the other: the first k entries delivered from reader state (q, within, buf)
pub open spec fn dec_k(blocks: Seq<Seq<u8>>, q: RdPos, within: bool, buf: Seq<u8>, k: nat) -> Option<(Seq<Seq<u8>>, RdPos)>
    decreases k,
{
    if k == 0 { Some((Seq::<Seq<u8>>::empty(), q)) } else {
        match rec_step(blocks, q, within, buf) {
            RStep::Record { bytes, next } => match dec_k(blocks, next, false, bytes, (k - 1) as nat) {
                Some((rest, last)) => Some((seq![bytes] + rest, last)),
                None => None,
            },
            _ => None,
        }
    }
}

/// L-C07: ANY sequence of entries of ANY sizes, written from ANY stream offset, is read back identical and in
/// order (the two-dimensional offset x length quantifier of the property, for all sequences).
pub proof fn lemma_roundtrip_all(s: Seq<u8>, p: int, entries: Seq<Seq<u8>>, q: RdPos, within: bool, buf: Seq<u8>)
    requires
        s.len() % 32768 == 0,
        pos_at(blocks_of(s), q, p),
        p + enc_all(p, entries).len() <= s.len(),
        s.subrange(p, p + enc_all(p, entries).len()) == enc_all(p, entries),
    ensures
        dec_k(blocks_of(s), q, within, buf, entries.len()) matches Some((got, last))
            && got == entries && pos_at(blocks_of(s), last, p + enc_all(p, entries).len()),
    decreases entries.len(),
{
    lemma_pos_mod(q.idx, q.cursor, p);
    if entries.len() > 0 {
        let e = enc(p, entries[0], true);
        let all = enc_all(p, entries);
        let p2 = p + e.len();
        assert(all == e + enc_all(p2, entries.skip(1)));
        assert(s.subrange(p, p + e.len()) =~= e) by {
            assert(s.subrange(p, p + all.len()).subrange(0, e.len() as int) =~= s.subrange(p, p + e.len()));
            assert(all.subrange(0, e.len() as int) =~= e);
        }
        lemma_read_written_record(s, p, entries[0], true, q, within, buf);
        let next = rec_step(blocks_of(s), q, within, buf)->Record_next;
        let bytes = rec_step(blocks_of(s), q, within, buf)->Record_bytes;
        assert(bytes =~= entries[0]);
        assert(s.subrange(p2, p2 + enc_all(p2, entries.skip(1)).len()) =~= enc_all(p2, entries.skip(1))) by {
            assert(s.subrange(p, p + all.len()).subrange(e.len() as int, all.len() as int) =~= s.subrange(p2, p + all.len()));
            assert(all.subrange(e.len() as int, all.len() as int) =~= enc_all(p2, entries.skip(1)));
        }
        lemma_roundtrip_all(s, p2, entries.skip(1), next, false, bytes);
        assert(seq![entries[0]] + entries.skip(1) =~= entries);
    }
}

} // verus!
