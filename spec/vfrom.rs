// Glue for the `?` operator: Verus specifies the conversion done by `?` through the uninterpreted
// `vstd::std_specs::control_flow::spec_from(value, ret)`.  For every `impl From<E> for F` of the crate
// the axiom below states that `?` converts exactly as that impl's verified `from_spec` says
// (`?` calls `From::from`).  Each impl is itself checked against the same `from_spec` (FromSpecImpl).
// Trusted base item: "spec_from axioms".
use vstd::prelude::*;
use vstd::std_specs::control_flow::spec_from;
use vstd::std_specs::convert::FromSpec;
use crate::error::*;
use crate::frame::ReadFrameError;
verus! {

pub broadcast axiom fn ax_from_io_readframe(e: std::io::Error, r: ReadFrameError)
    ensures #[trigger] spec_from::<ReadFrameError, std::io::Error>(e, r) ==> r == ReadFrameError::IoError(e);
pub broadcast axiom fn ax_from_io_readrecord(e: std::io::Error, r: ReadRecordError)
    ensures #[trigger] spec_from::<ReadRecordError, std::io::Error>(e, r) ==> r == ReadRecordError::IoError(e);
pub broadcast axiom fn ax_from_io_create(e: std::io::Error, r: CreateQueueError)
    ensures #[trigger] spec_from::<CreateQueueError, std::io::Error>(e, r) ==> r == CreateQueueError::IoError(e);
pub broadcast axiom fn ax_from_io_delete(e: std::io::Error, r: DeleteQueueError)
    ensures #[trigger] spec_from::<DeleteQueueError, std::io::Error>(e, r) ==> r == DeleteQueueError::IoError(e);
pub broadcast axiom fn ax_from_io_truncate(e: std::io::Error, r: TruncateError)
    ensures #[trigger] spec_from::<TruncateError, std::io::Error>(e, r) ==> r == TruncateError::IoError(e);
pub broadcast axiom fn ax_from_io_append(e: std::io::Error, r: AppendError)
    ensures #[trigger] spec_from::<AppendError, std::io::Error>(e, r) ==> r == AppendError::IoError(e);

pub broadcast axiom fn ax_from_exists_create(e: AlreadyExists, r: CreateQueueError)
    ensures #[trigger] spec_from::<CreateQueueError, AlreadyExists>(e, r) ==> r == CreateQueueError::AlreadyExists;
pub broadcast axiom fn ax_from_missing_delete(e: MissingQueue, r: DeleteQueueError)
    ensures #[trigger] spec_from::<DeleteQueueError, MissingQueue>(e, r) ==> r == DeleteQueueError::MissingQueue(e.0);
pub broadcast axiom fn ax_from_missing_truncate(e: MissingQueue, r: TruncateError)
    ensures #[trigger] spec_from::<TruncateError, MissingQueue>(e, r) ==> r == TruncateError::MissingQueue(e.0);
pub broadcast axiom fn ax_from_missing_append(e: MissingQueue, r: AppendError)
    ensures #[trigger] spec_from::<AppendError, MissingQueue>(e, r) ==> r == AppendError::MissingQueue(e.0);
pub broadcast axiom fn ax_from_mrc_readrecord(e: MultiRecordCorruption, r: ReadRecordError)
    ensures #[trigger] spec_from::<ReadRecordError, MultiRecordCorruption>(e, r) ==> r == ReadRecordError::Corruption;

pub broadcast group group_from {
    ax_from_io_readframe, ax_from_io_readrecord, ax_from_io_create, ax_from_io_delete, ax_from_io_truncate,
    ax_from_io_append, ax_from_exists_create, ax_from_missing_delete, ax_from_missing_truncate,
    ax_from_missing_append, ax_from_mrc_readrecord,
}

} // verus!
