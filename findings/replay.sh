#!/bin/bash
# usage: findings/replay.sh F1|F2|F3|F4|F5 <git-rev of /repo | path to a repo copy>
# Builds a scratch copy (removed afterwards), adds the replay test module under cfg(test) (so WAL files
# are 4 blocks), runs it.  Exit 0 = the replay test PASSES (defect absent), 1 = it FAILS (defect present).
set -u
F=$1; REV=${2:-HEAD}
HERE=$(cd "$(dirname "$0")" && pwd)
W=$(mktemp -d /tmp/verif_replay.XXXXXX)
trap 'rm -rf "$W" /tmp/verif_f1_dir' EXIT
if [ -d "$REV" ]; then rsync -a --exclude target "$REV"/ "$W"/; else git -C /repo archive "$REV" | tar -x -C "$W"; fi
# reuse the dependency build of /repo when present
[ -d /repo/target ] && rsync -a /repo/target "$W"/ 2>/dev/null
m=$(echo "$F" | tr A-Z a-z)
cp "$HERE/$F/verif_$m.rs" "$W/src/verif_$m.rs"
printf '\n#[cfg(test)]\nmod verif_%s;\n#[cfg(test)]\npub(crate) fn rolling_file_num_bytes() -> usize { 32768 * 4 }\n' "$m" >> "$W/src/lib.rs"
cd "$W"
export CARGO_NET_OFFLINE=true
if [ "$F" = F1 ]; then
  BIN=$(cargo test --offline --no-run --lib 2>&1 | sed -n 's/.*Executable.*(\(.*\))/\1/p' | head -1)
  [ -z "$BIN" ] && { echo "build failed"; exit 2; }
  chmod -R a+rX "$W"
  setpriv --reuid=65534 --regid=65534 --clear-groups "$BIN" f1_ --nocapture
else
  cargo test --offline --lib "${m}_" -- --nocapture
fi
rc=$?
[ $rc -eq 0 ] && exit 0 || exit 1
