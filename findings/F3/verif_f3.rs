// replay of finding F3 (C10): a CRC-valid Truncate entry at position u64::MAX
use crate::frame::{FrameType, FrameWriter};
use crate::block_read_write::VecBlockWriter;
use crate::MultiRecordLog;
use std::io::Write;

fn craft(kind: u8, position: u64, queue: &str, body: &[u8]) -> Vec<u8> {
    let mut payload = vec![kind];
    payload.extend_from_slice(&position.to_le_bytes());
    payload.extend_from_slice(&(queue.len() as u16).to_le_bytes());
    payload.extend_from_slice(queue.as_bytes());
    payload.extend_from_slice(body);
    payload
}

#[test]
fn f3_truncate_at_u64_max_panics_open() {
    let dir = tempfile::tempdir().unwrap();
    // build the block with the crate's own frame writer (valid CRCs)
    let mut fw = FrameWriter::create(VecBlockWriter::default());
    fw.write_frame(FrameType::Full, &craft(2, 0, "q", &[])).unwrap();          // RecordPosition(q, 0)
    fw.write_frame(FrameType::Full, &craft(1, u64::MAX, "q", &[])).unwrap();   // Truncate(q, ..=u64::MAX)
    let mut bytes: Vec<u8> = fw.into_writer().into();
    bytes.resize(crate::rolling_file_num_bytes(), 0u8);
    let mut f = std::fs::File::create(dir.path().join("wal-00000000000000000000")).unwrap();
    f.write_all(&bytes).unwrap();
    drop(f);
    let res = std::panic::catch_unwind(|| MultiRecordLog::open(dir.path()).map(|_| ()));
    match res {
        Ok(r) => println!("open returned {:?}", r.map_err(|e| e.to_string())),
        Err(_) => panic!("open PANICKED on a CRC-valid WAL image"),
    }
}
