// replay of finding F2 (C03): GC unlinks a WAL file while the entries that supersede it are still
// only in the user-space write buffer (policy DoNothing, no empty queue => no fsync before unlink).
// Process-crash model: what has reached the OS = a copy of the directory taken while the log is alive.
use crate::{MultiRecordLog, PersistPolicy};

fn copy_dir(from: &std::path::Path, to: &std::path::Path) {
    for e in std::fs::read_dir(from).unwrap() {
        let e = e.unwrap();
        std::fs::copy(e.path(), to.join(e.file_name())).unwrap();
    }
}

#[test]
fn f2_gc_unlinks_before_supersedING_data_is_durable() {
    let dir = tempfile::tempdir().unwrap();
    let crash = tempfile::tempdir().unwrap();
    let mut log = MultiRecordLog::open_with_prefs(dir.path(), PersistPolicy::DoNothing).unwrap();
    log.create_queue("a").unwrap(); // fsynced on return
    log.create_queue("b").unwrap(); // fsynced on return
    let big = vec![7u8; 30_000];
    let mut last_in_file0 = 0u64;
    while log.list_file_numbers() == vec![0] {
        last_in_file0 = log.append_record("a", None, &big[..]).unwrap().last_position.unwrap();
    }
    // now writing into file 1; these two entries sit in the BufWriter
    log.append_record("a", None, &b"small"[..]).unwrap();
    log.append_record("b", None, &b"small"[..]).unwrap();
    // drop everything `a` has in file 0: file 0 becomes unreferenced and is unlinked by the GC pass
    log.truncate("a", ..=last_in_file0).unwrap();
    assert_eq!(log.list_file_numbers(), vec![1], "file 0 should have been collected");
    // crash: only what reached the OS survives
    copy_dir(dir.path(), crash.path());
    std::mem::forget(log);
    let recovered = MultiRecordLog::open(crash.path()).unwrap();
    let mut queues: Vec<String> = recovered.list_queues().map(|s| s.to_string()).collect();
    queues.sort();
    println!("recovered queues: {:?}", queues);
    assert_eq!(queues, vec!["a".to_string(), "b".to_string()],
        "create_queue(a) and create_queue(b) had returned (persisted) but were lost by the crash");
}
