// replay of finding F1 (C11): a persistent I/O error on a non-first WAL file makes open() spin.
// Run the test binary as an unprivileged uid (root ignores file modes):
//   setpriv --reuid=65534 --regid=65534 --clear-groups <test-binary> f1_ --nocapture
use crate::{MultiRecordLog, PersistPolicy};
use std::os::unix::fs::PermissionsExt;

#[test]
fn f1_open_terminates_on_unreadable_second_file() {
    let base = std::env::var("VERIF_F1_DIR").unwrap_or_else(|_| "/tmp/verif_f1_dir".to_string());
    let dir = std::path::PathBuf::from(base);
    let _ = std::fs::remove_dir_all(&dir);
    std::fs::create_dir_all(&dir).unwrap();
    std::fs::set_permissions(&dir, std::fs::Permissions::from_mode(0o777)).unwrap();
    {
        let mut log = MultiRecordLog::open_with_prefs(&dir, PersistPolicy::DoNothing).unwrap();
        log.create_queue("q").unwrap();
        let big = vec![7u8; 30_000];
        while log.list_file_numbers().len() < 2 {
            log.append_record("q", None, &big[..]).unwrap();
        }
    }
    let second = dir.join("wal-00000000000000000001");
    std::fs::set_permissions(&second, std::fs::Permissions::from_mode(0o000)).unwrap();
    if std::fs::File::open(&second).is_ok() {
        panic!("the file is still readable (running as root?): run this test as an unprivileged uid");
    }
    let (tx, rx) = std::sync::mpsc::channel();
    let d2 = dir.clone();
    std::thread::spawn(move || {
        let r = MultiRecordLog::open(&d2).map(|_| ());
        let _ = tx.send(format!("{:?}", r.map_err(|e| format!("{e:?}"))));
    });
    match rx.recv_timeout(std::time::Duration::from_secs(10)) {
        Ok(res) => {
            println!("open reported: {res}");
            assert!(res.contains("IoError"), "open must report the I/O error, got {res}");
        }
        Err(_) => panic!("open did not terminate within 10 s on an unreadable WAL file"),
    }
}
