// Replay of finding F4 (C17) against the real code: a foreign symlink named like the NEXT WAL file makes the roll-over fail
// (create_new -> AlreadyExists) -- correct so far -- but the new file number stays in the tracker, so when the application
// RETRIES the append, the roll-over finds that number with `files.next(..)`, opens it with `open_file` (which follows the
// symlink) and writes WAL frames into the foreign target.
use crate::MultiRecordLog;
use std::os::unix::fs::symlink;

#[test]
fn f4_retry_after_failed_rollover_leaves_foreign_target_alone() {
    let dir = tempfile::tempdir().unwrap();
    let outside = tempfile::tempdir().unwrap();
    let target = outside.path().join("notes.txt");
    std::fs::write(&target, b"precious foreign bytes").unwrap();
    symlink(&target, dir.path().join("wal-00000000000000000001")).unwrap();
    let mut log = MultiRecordLog::open(dir.path()).unwrap();
    log.create_queue("q").unwrap();
    let payload = vec![7u8; 20_000];
    let mut first_err = None;
    for i in 0..20 {
        if let Err(e) = log.append_record("q", None, &payload[..]) {
            first_err = Some((i, format!("{e:?}")));
            break;
        }
    }
    eprintln!("first error: {first_err:?}");
    assert!(first_err.is_some(), "the roll-over must fail on the foreign entry (create_new)");
    // the application retries, twice
    for attempt in 0..2 {
        let retry = log.append_record("q", None, &payload[..]);
        eprintln!("retry {attempt}: {:?}", retry.as_ref().map(|_| ()).map_err(|e| format!("{e:?}")));
    }
    let after = std::fs::read(&target).unwrap();
    eprintln!("foreign target: {} bytes", after.len());
    assert_eq!(&after[..], b"precious foreign bytes", "the library wrote WAL data into a foreign file through the symlink");
    assert!(std::fs::symlink_metadata(dir.path().join("wal-00000000000000000001")).unwrap().file_type().is_symlink());
}
