// Replay of finding F5 (C08) against the real code: one 32 KiB block of a WAL file overwritten IN PLACE by a copy of the block before it
// (a duplicated block: what a misdirected write leaves behind; file lengths unchanged).  Both blocks hold a Middle frame of the same
// multi-block entry; every frame keeps a valid checksum (the copy is a genuine frame), the sequence First, Middle, Middle, Last is well
// formed, so the reader reassembles [frame 1, frame 2, frame 2, frame 4] and open() returns, at position 0, a payload of the right
// length whose bytes were never appended.  C08 ("a successful open never returns a record that was not appended") does not hold for this
// overwrite; a frame checksum cannot see it (no sequence number / chaining in the frame format).
use crate::MultiRecordLog;

#[test]
fn f5_duplicated_block_is_not_returned_as_a_record() {
    let dir = tempfile::tempdir().unwrap();
    let payload: Vec<u8> = (0..100_000u32).map(|i| (i.wrapping_mul(2654435761) >> 24) as u8).collect();
    {
        let mut log = MultiRecordLog::open(dir.path()).unwrap();
        log.create_queue("q").unwrap();
        log.append_record("q", None, &payload[..]).unwrap();
    }
    let wal = dir.path().join("wal-00000000000000000000");
    let mut bytes = std::fs::read(&wal).unwrap();
    const B: usize = 32768;
    // blocks 1 and 2 each hold exactly one Middle frame (type byte 3, length 32761) of the 100 000-byte entry
    assert_eq!((bytes[B + 6], bytes[2 * B + 6]), (3, 3), "layout: two Middle frames expected");
    assert_eq!(u16::from_le_bytes([bytes[B + 4], bytes[B + 5]]), 32761);
    let (a, b) = bytes.split_at_mut(2 * B);
    b[..B].copy_from_slice(&a[B..2 * B]);
    std::fs::write(&wal, &bytes).unwrap();
    match MultiRecordLog::open(dir.path()) {
        Err(e) => eprintln!("open reports the damage: {e:?}"),
        Ok(log) => {
            let recs: Vec<(u64, Vec<u8>)> = log.range("q", ..).unwrap().map(|r| (r.position, r.payload.to_vec())).collect();
            eprintln!("recovered {} record(s): {:?}", recs.len(), recs.iter().map(|r| (r.0, r.1.len())).collect::<Vec<_>>());
            for (pos, pl) in &recs {
                assert!(*pos == 0 && *pl == payload, "record at position {pos} ({} bytes) was never appended: first differing byte at {:?}",
                        pl.len(), pl.iter().zip(payload.iter()).position(|(x, y)| x != y));
            }
        }
    }
}
