"""later additions to the selftest corpus (same helper as mkpatches.py, which regenerates b01..b25/g01..g09).
usage: python3 dev/mkpatches2.py [name-prefix ...]   (no argument: all)"""
import subprocess, os, shutil, sys
W='/tmp/verif_mk2'
ONLY=sys.argv[1:]
def fresh():
    shutil.rmtree(W, ignore_errors=True)
    subprocess.run(['git','-C','/repo','worktree','prune'],check=True)
    subprocess.run(['git','-C','/repo','worktree','add','--detach','-q',W,'HEAD'],check=True)
def mk(kind,name,expect,file,old,new,note=''):
    if ONLY and not any(name.startswith(o) for o in ONLY): return
    edits = [(file,old,new)] if isinstance(file,str) else file
    for f,o,n in edits:
        p=os.path.join(W,f)
        s=open(p).read()
        assert s.count(o)==1, (name, f, s.count(o))
        open(p,'w').write(s.replace(o,n))
    d=subprocess.run(['git','-C',W,'diff'],capture_output=True,text=True).stdout
    out='/verif/selftest/%s/%s.diff'%(kind,name)
    open(out,'w').write('# expect: %s\n# %s\n'%(expect,note)+d)
    subprocess.run(['git','-C',W,'checkout','-q','--','.'],check=True)
    print('wrote',out)
fresh()
B='breaking'; G='benign'
RB='src/mem/rolling_buffer.rs'
mk(B,'b38_getrange_wrap_order','C05',RB,'''            res.extend_from_slice(&left_part_of_queue[start..]);
            let end = end - left_part_of_queue.len();
            res.extend_from_slice(&right_part_of_queue[..end]);''','''            let end = end - left_part_of_queue.len();
            res.extend_from_slice(&right_part_of_queue[..end]);
            res.extend_from_slice(&left_part_of_queue[start..]);''','ring-wrap re-assembly in the wrong order: right length, wrong bytes')
mk(B,'b39_getrange_excl_start','C05',RB,'            Bound::Excluded(pos) => pos + 1,\n            Bound::Unbounded => 0,','            Bound::Excluded(pos) => *pos,\n            Bound::Unbounded => 0,','excluded start bound treated as included')
mk(G,'g10_getrange_gt','-',RB,'} else if start >= left_part_of_queue.len() {','} else if start > left_part_of_queue.len() {','start == left.len() handled by the re-assembly branch instead (same bytes)')
shutil.rmtree(W, ignore_errors=True)
subprocess.run(['git','-C','/repo','worktree','prune'],check=True)
