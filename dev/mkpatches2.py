"""later additions to the selftest corpus (same helper as mkpatches.py, which regenerates b01..b25/g01..g09).
usage: python3 dev/mkpatches2.py [name-prefix ...]   (no argument: all)"""
import subprocess, os, shutil, sys
W='/tmp/verif_mk2'
ONLY=sys.argv[1:]
def fresh():
    shutil.rmtree(W, ignore_errors=True)
    subprocess.run(['git','-C','/repo','worktree','prune'],check=True)
    subprocess.run(['git','-C','/repo','worktree','add','--detach','-q',W,'HEAD'],check=True)
def mk(kind,name,expect,file,old,new,note='',extra=None):
    if ONLY and not any(name.startswith(o) for o in ONLY): return
    edits = [(file,old,new)] if isinstance(file,str) else file
    if extra: edits = edits + extra
    for f,o,n in edits:
        p=os.path.join(W,f)
        s=open(p).read()
        assert s.count(o)==1, (name, f, s.count(o))
        open(p,'w').write(s.replace(o,n))
    d=subprocess.run(['git','-C',W,'diff'],capture_output=True,text=True).stdout
    out='/verif/selftest/%s/%s.diff'%(kind,name)
    open(out,'w').write('# expect: %s\n# %s\n'%(expect,note)+d)
    subprocess.run(['git','-C',W,'checkout','-q','--','.'],check=True)
    print('wrote',out)
fresh()
B='breaking'; G='benign'
RB='src/mem/rolling_buffer.rs'
mk(B,'b38_getrange_wrap_order','C05',RB,'''            res.extend_from_slice(&left_part_of_queue[start..]);
            let end = end - left_part_of_queue.len();
            res.extend_from_slice(&right_part_of_queue[..end]);''','''            let end = end - left_part_of_queue.len();
            res.extend_from_slice(&right_part_of_queue[..end]);
            res.extend_from_slice(&left_part_of_queue[start..]);''','ring-wrap re-assembly in the wrong order: right length, wrong bytes')
mk(B,'b39_getrange_excl_start','C05',RB,'            Bound::Excluded(pos) => pos + 1,\n            Bound::Unbounded => 0,','            Bound::Excluded(pos) => *pos,\n            Bound::Unbounded => 0,','excluded start bound treated as included')
mk(G,'g10_getrange_gt','-',RB,'} else if start >= left_part_of_queue.len() {','} else if start > left_part_of_queue.len() {','start == left.len() handled by the re-assembly branch instead (same bytes)')
MQ='src/mem/queue.rs'
mk(B,'b40_range_excl_no_skip','C05',MQ,'.map(|idx| idx + 1)','.map(|idx| idx)','excluded start bound does not skip the record at that position')
mk(B,'b41_range_payload_end','C05',MQ,'let payload = if let Some(next_record_meta) = self.record_metas.get(idx + 1) {\n                    let end_offset','let payload = if let Some(next_record_meta) = self.record_metas.get(idx + 2) {\n                    let end_offset','range: payload runs to the start of the record after the next one')
mk(B,'b42_range_stop_early','C05',MQ,'(start_idx..self.record_metas.len())','(start_idx..self.record_metas.len().saturating_sub(1))','range never delivers the last retained record')
mk(G,'g11_range_pred_local','-',MQ,'.take_while(move |idx| range.contains(&self.record_metas[*idx].position))','.take_while(move |idx| { let position = self.record_metas[*idx].position; range.contains(&position) })','range predicate through a local')
FN='src/rolling/file_number.rs'
mk(B,'b43_inc_reuses_curr','C07 C06',FN,'let new_number = *curr.file_number + 1u64;','let new_number = *curr.file_number;','roll-over re-creates the current file number instead of the next one')
mk(G,'g12_inc_plus_two','-',FN,'let new_number = *curr.file_number + 1u64;','let new_number = *curr.file_number + 2u64;','a gap in file numbers is allowed (C17)')
RD='src/rolling/directory.rs'
mk(B,'b45_intow_next_block','C01',RD,'let offset = self.block_id * crate::BLOCK_NUM_BYTES;','let offset = (self.block_id + 1) * crate::BLOCK_NUM_BYTES;','the writer resumes behind the block the reader stood on instead of at its start')
mk(B,'b46_intow_no_seek','C01',RD,'        self.file.seek(SeekFrom::Start(offset as u64))?;\n        Ok(RollingWriter {','        Ok(RollingWriter {','the file cursor is left behind the last block read')
mk(B,'b47_intow_first_file','C01 C06',RD,'            file_number: self.file_number.clone(),\n            directory: self.directory,','            file_number: self.directory.first_file_number().clone(),\n            directory: self.directory,','the recovered writer claims to write into the oldest file')
mk(G,'g13_intow_commute','-',RD,'let offset = self.block_id * crate::BLOCK_NUM_BYTES;','let offset = crate::BLOCK_NUM_BYTES * self.block_id;','commuted product')
mk(B,'b48_summary_end_next','C05',MQ,'            end: self.last_position(),','            end: Some(self.next_position()),','summary reports the next position as the last one')
mk(B,'b49_summary_skips_empty','C05','src/mem/queues.rs','            summary.queues.insert(queue_name.clone(), queue.summary());','            if !queue.is_empty() { summary.queues.insert(queue_name.clone(), queue.summary()); }','summary omits empty queues')
mk(B,'b50_open_any_entry','C17',RD,'''            if !dir_entry.file_type()?.is_file() {
                continue;
            }
''','''            if dir_entry.file_type()?.is_dir() {
                continue;
            }
''','directory scan skips directories only: symlinks, fifos, sockets named like WAL files are tracked')
mk(B,'b51_open_skips_errors','C11',RD,'            let dir_entry = dir_entry_res?;','            let Ok(dir_entry) = dir_entry_res else { continue };','an I/O error while listing the directory is skipped instead of reported')
mk(G,'g14_open_name_first','-',RD,'''            if !dir_entry.file_type()?.is_file() {
                continue;
            }
            let file_name = if let Some(file_name) = dir_entry.file_name().to_str() {
                file_name.to_string()
            } else {
                continue;
            };
''','''            let file_name = if let Some(file_name) = dir_entry.file_name().to_str() {
                file_name.to_string()
            } else {
                continue;
            };
            if !dir_entry.file_type()?.is_file() {
                continue;
            }
''','directory scan looks at the name before the type')
mk(G,'g15_extend_memcpy','-',RB,'        self.buffer.extend(slice.iter().copied());','''        let former_len = self.buffer.len();
        self.buffer.resize(former_len + slice.len(), 0u8);
        let (left_part_of_queue, right_part_of_queue) = self.buffer.as_mut_slices();
        let num_bytes_before_wrap = left_part_of_queue.len().saturating_sub(former_len);
        let (before_wrap, after_wrap) = slice.split_at(num_bytes_before_wrap);
        let left_len = left_part_of_queue.len();
        left_part_of_queue[left_len - before_wrap.len()..].copy_from_slice(before_wrap);
        let right_len = right_part_of_queue.len();
        right_part_of_queue[right_len - after_wrap.len()..].copy_from_slice(after_wrap);''','a CORRECT two-memcpy implementation of extend (the seeded change C05_d is the incorrect one)')
mk(G,'g16_extract_helper','-',MQ,'''        let next_position = self.next_position();
        if target_position < next_position {
            return Err(AppendError::Past);
        }
''','''        if self.is_in_the_past(target_position) {
            return Err(AppendError::Past);
        }
''','a CORRECT extract-helper refactor (a new private helper is_in_the_past); expected: undecided (exit 2), never an alarm',extra=[(MQ,'''    /// Get the position of the record.
    ///
    /// Returns Ok(_) if the record was found''','''    fn is_in_the_past(&self, target_position: u64) -> bool {
        target_position < self.next_position()
    }

    /// Get the position of the record.
    ///
    /// Returns Ok(_) if the record was found''')])
mk(G,'g19_summary_temp','-','src/mem/queues.rs','            summary.queues.insert(queue_name.clone(), queue.summary());','            let queue_summary = queue.summary();\n            summary.queues.insert(queue_name.clone(), queue_summary);','summary through a temporary')
mk(G,'g20_range_unbounded_usize','-',MQ,'            Bound::Unbounded => 0,\n        };\n        (start_idx','            Bound::Unbounded => 0usize,\n        };\n        (start_idx','literal suffix')
mk(G,'g21_inc_commute','-',FN,'let new_number = *curr.file_number + 1u64;','let new_number = 1u64 + *curr.file_number;','commuted sum')
mk(G,'g23_gc_annot','-','src/multi_record_log.rs','        let mut num_bytes_written = 0;\n\n        if self\n            .record_log_writer\n            .directory()','        let mut num_bytes_written: u64 = 0;\n\n        if self\n            .record_log_writer\n            .directory()','type annotation on a local')
QS='src/mem/queues.rs'
mk(B,'b52_size_drops_names','C16',QS,'.map(|(name, queue)| name.len() + queue.size())','.map(|(_name, queue)| queue.size())','used bytes no longer count the queue names')
mk(B,'b53_size_swapped','C16',QS,'        (size, capacity)\n','        (capacity, size)\n','(used, allocated) returned in the wrong order')
mk(B,'b54_size_cap_len','C16',QS,'.map(|(name, queue)| name.capacity() + queue.capacity())','.map(|(name, queue)| name.len() + queue.size())','allocated reported as used')
mk(G,'g24_size_commute','-',QS,'.map(|(name, queue)| name.len() + queue.size())','.map(|(name, queue)| queue.size() + name.len())','commuted per-queue term')
mk(G,'g25_size_names','-',QS,'.map(|(name, queue)| name.capacity() + queue.capacity())','.map(|(queue_name, mem_queue)| queue_name.capacity() + mem_queue.capacity())','renamed closure bindings')
shutil.rmtree(W, ignore_errors=True)
subprocess.run(['git','-C','/repo','worktree','prune'],check=True)
