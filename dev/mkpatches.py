import subprocess, os, shutil, sys
W='/tmp/verif_mk'
def fresh():
    shutil.rmtree(W, ignore_errors=True)
    subprocess.run(['git','-C','/repo','worktree','prune'],check=True)
    subprocess.run(['git','-C','/repo','worktree','add','--detach','-q',W,'HEAD'],check=True)
def mk(kind,name,expect,file,old,new,note=''):
    p=os.path.join(W,file)
    s=open(p).read()
    assert s.count(old)==1, (name, s.count(old))
    open(p,'w').write(s.replace(old,new))
    d=subprocess.run(['git','-C',W,'diff'],capture_output=True,text=True).stdout
    out='/verif/selftest/%s/%s.diff'%(kind,name)
    open(out,'w').write('# expect: %s\n# %s\n'%(expect,note)+d)
    subprocess.run(['git','-C',W,'checkout','-q','--','.'],check=True)
fresh()
B='breaking'
mk(B,'b01_past_le','C05 C04','src/mem/queue.rs','if target_position < next_position {','if target_position <= next_position {','Past test off by one')
mk(B,'b02_trunc_cmp','C05','src/mem/queue.rs','if truncate_up_to_pos + 1 >= self.next_position() {','if truncate_up_to_pos >= self.next_position() {','future-truncation test off by one')
mk(B,'b03_pad_not_counted','C15','src/frame/writer.rs','            num_bytes_written += num_bytes_remaining_in_block;\n','','padding bytes not reported')
mk(B,'b04_frame_len_ge','C07 C08','src/frame/reader.rs','if self.cursor + header.len() > BLOCK_NUM_BYTES {','if self.cursor + header.len() >= BLOCK_NUM_BYTES {','frames ending exactly at the block end rejected')
mk(B,'b05_no_crc','C08','src/frame/reader.rs','if !header.check(frame_payload) {','if false && !header.check(frame_payload) {','CRC not checked')
mk(B,'b06_within_record_kept','C12 C08','src/recordlog/reader.rs','                Err(ReadFrameError::Corruption) => {\n                    self.within_record = false;\n','                Err(ReadFrameError::Corruption) => {\n','damaged frame does not abandon the entry being assembled')
mk(B,'b07_create_mem_first','C13','src/multi_record_log.rs','''        let num_bytes_written = self.record_log_writer.write_record(record)?;
        self.persist(PersistAction::FlushAndFsync)?;
        self.in_mem_queues.create_queue(queue)?;''','''        self.in_mem_queues.create_queue(queue)?;
        let num_bytes_written = self.record_log_writer.write_record(record)?;
        self.persist(PersistAction::FlushAndFsync)?;''','in-memory state changed before the WAL write can fail')
mk(B,'b08_empty_batch_written','C13','src/multi_record_log.rs','if multi_record_spare_buffer.is_empty() {','if false && multi_record_spare_buffer.is_empty() {','empty batch written to the WAL')
mk(B,'b09_delete_no_persist','C03','src/multi_record_log.rs','''        num_bytes_written += self.run_gc_if_necessary()?;
        self.persist(PersistAction::FlushAndFsync)?;
        Ok(DeleteQueueOutcome {''','''        num_bytes_written += self.run_gc_if_necessary()?;
        self.persist_on_policy()?;
        Ok(DeleteQueueOutcome {''','delete_queue follows the policy instead of always fsyncing')
mk(B,'b10_gc_no_fsync','C03','src/multi_record_log.rs','''            self.persist(PersistAction::FlushAndFsync)?;
            self.record_log_writer.directory().gc()?;''','''            self.record_log_writer.directory().gc()?;''','F2 regression')
mk(B,'b11_ioerror_continue','C11','src/multi_record_log.rs','''                Err(ReadRecordError::IoError(io_err)) => {
                    return Err(ReadRecordError::IoError(io_err));
                }''','''                Err(ReadRecordError::IoError(_io_err)) => {
                    continue;
                }''','F1 regression')
mk(B,'b12_ack_keeps_stale','C09 C01','src/mem/queues.rs','if !queue.is_empty() || queue.next_position() != next_position {','if queue.is_empty() && queue.next_position() != next_position {','ack_position keeps a stale non-empty queue')
mk(B,'b13_trunc_entry_minus1','C01','src/record.rs','serialize(RecordType::Truncate, truncate_range.end, queue, &[], buffer);','serialize(RecordType::Truncate, truncate_range.end.saturating_sub(1), queue, &[], buffer);','Truncate entry records end-1')
mk(B,'b14_replay_pos_zero','C01 C04','src/multi_record_log.rs','''                    MultiPlexedRecord::RecordPosition { queue, position } => {
                        in_mem_queues.ack_position(queue, position);''','''                    MultiPlexedRecord::RecordPosition { queue, position: _ } => {
                        in_mem_queues.ack_position(queue, 0);''','replayed RecordPosition ignores the position')
mk(B,'b16_no_rebase','C05','src/mem/queue.rs','''        for record_meta in &mut self.record_metas {
            record_meta.start_offset -= start_offset_to_keep;
        }
''','','offsets not rebased after truncation')
mk(B,'b17_lastrec_offset','C05','src/mem/queue.rs','payload: self.concatenated_records.get_range(record.start_offset..),\n        })','payload: self.concatenated_records.get_range(record.start_offset.saturating_sub(1)..),\n        })','last_record starts one byte early')
mk(B,'b18_hdr_len_bytes','C07','src/frame/header.rs','dest[4..6].copy_from_slice(&self.len.to_le_bytes()[..]);','dest[4..6].copy_from_slice(&self.len.to_be_bytes()[..]);','length field big endian on write')
mk(B,'b19_frame_type','C07 C12','src/recordlog/writer.rs','let frame_type = frame_type(is_first_frame, is_last_frame);','let frame_type = frame_type(is_first_frame, is_last_frame || is_first_frame);','first frame of a multi-frame entry typed Full')
mk(B,'b20_item_off','C12 C01','src/record.rs','self.byte_offset += HEADER_LEN + len;','self.byte_offset += HEADER_LEN + len.max(1);','empty payload items advance by one byte too many')
mk(B,'b21_body_len_le','C01 C08','src/record.rs','if body.len() < queue_len {','if body.len() <= queue_len {','entries whose body is exactly the queue name rejected')
mk(B,'b23_policy_only_fsync','C03','src/multi_record_log.rs','if let Some(persist_action) = self.next_persist.should_persist() {\n            self.persist(persist_action)?;','if let Some(persist_action) = self.next_persist.should_persist() {\n            if persist_action.is_fsync() { self.persist(persist_action)?; }','Always(Flush) policy never flushes')
mk(B,'b24_evicted_plus','C05','src/multi_record_log.rs','            .truncate(queue, truncate_range)\n            .unwrap_or(0);','            .truncate(queue, truncate_range)\n            .map(|n| n.max(1))\n            .unwrap_or(0);','evicted count at least 1')
mk(B,'b25_gc_bytes_dropped','C15','src/multi_record_log.rs','        num_bytes_written += self.run_gc_if_necessary()?;\n        self.persist_on_policy()?;','        let _ = self.run_gc_if_necessary()?;\n        self.persist_on_policy()?;','GC bytes not added to truncate outcome')
G='benign'
mk(G,'g01_rename_local','-','src/frame/reader.rs','''        let num_bytes_to_end_of_block = self.num_bytes_to_end_of_block();
        let need_to_skip_block = self.block_corrupted || num_bytes_to_end_of_block < HEADER_LEN;''','''        let remaining = self.num_bytes_to_end_of_block();
        let need_to_skip_block = self.block_corrupted || remaining < HEADER_LEN;''','rename a local not named by any contract')
mk(G,'g02_log_line','-','src/mem/queues.rs','        if self.queues.contains_key(queue) {\n            return Err(AlreadyExists);','        info!(queue = queue, "creating queue");\n        if self.queues.contains_key(queue) {\n            return Err(AlreadyExists);','add a log line')
mk(G,'g03_reorder_fields','-','src/frame/reader.rs','''        FrameReader {
            reader,
            cursor: 0,
            block_corrupted: false,
        }''','''        FrameReader {
            block_corrupted: false,
            cursor: 0,
            reader,
        }''','reorder struct literal fields')
mk(G,'g04_comments','-','src/mem/queue.rs','        let next_position = self.next_position();\n        if target_position < next_position {','        // the position the next record would get\n        let next_position = self.next_position();\n\n        if target_position < next_position {','comments and blank lines')
mk(G,'g05_capacity','-','src/recordlog/reader.rs','Vec::with_capacity(10_000)','Vec::with_capacity(20_000)','widen a capacity hint')
mk(G,'g06_equiv_cond','-','src/frame/writer.rs','if available_num_bytes_in_block >= HEADER_LEN {','if HEADER_LEN <= available_num_bytes_in_block {','flip a comparison')
mk(G,'g07_reorder_stmts','-','src/multi_record_log.rs','''        let position = position_opt.unwrap_or(next_position);
        let file_number = self.record_log_writer.current_file().clone();''','''        let file_number = self.record_log_writer.current_file().clone();
        let position = position_opt.unwrap_or(next_position);''','reorder two independent statements')
mk(G,'g08_match_unwrap','-','src/multi_record_log.rs','let position = position_opt.unwrap_or(next_position);','let position = match position_opt { Some(p) => p, None => next_position };','unwrap_or written as a match')
mk(G,'g09_saturating','-','src/frame/reader.rs','crate::BLOCK_NUM_BYTES - self.cursor','crate::BLOCK_NUM_BYTES.saturating_sub(self.cursor)','saturating_sub where no underflow is possible')
shutil.rmtree(W, ignore_errors=True)
subprocess.run(['git','-C','/repo','worktree','prune'],check=True)
print('done')
